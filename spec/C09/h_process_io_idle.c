/*@harness
{"tier":"quick","mode":"width","tus":["src/comm.c"],"include_tu":true,"dfcc":false,"stub_out":["get_user_data","remove_interactive","new_user_handler","hname_handler","add_console_line","flush_message","setup_accepted_connection"],"functions":["process_io"],
 "flags":["--bounds-check","--pointer-check"],"unwind":3,"timeout":600,
 "expect":["process_io.pointer_dereference","h_process_io_idle.assertion"],
 "native":{},
 "assumptions":["one event delivered by the reactor: the timer's wake-up (no context, no completion key), or a console completion while no console user exists",
                "no listening port / LPC socket / address server is involved (their handlers are not reached)"],
 "notes":"'tick before any connection': process_io() must be safe on an idle driver whose connection table was never allocated"}
@*/
#ifndef V_NATIVE
#include "comm.c"          /* scratch copy of the real TU: the event buffer g_io_events is file-static */
#endif
#include "vharness.h"
main_options_t *g_main_options; static main_options_t G_opts;
port_def_t external_port[5];
async_queue_t *g_console_queue = 0;   /* defined in src/backend.c */
lpc_socket_t *lpc_socks = 0; int max_lpc_socks = 0;   /* no LPC sockets */
int debug_message_with_src(const char *a, const char *b, const char *c, int d, const char *e, ...) { return 0; }
int debug_message(const char *fmt, ...) { return 0; }
static int G_unexpected;
static void get_user_data(interactive_t *ip, io_event_t *evt) { G_unexpected = 1; }
void remove_interactive(object_t *ob, int d) { G_unexpected = 1; }
static void new_user_handler(port_def_t *p) { G_unexpected = 1; }
static void hname_handler(void) { G_unexpected = 1; }
static int G_console_inits;
void init_console_user(int r) { if (G_console_inits < 10) G_console_inits++; /* may fail to create the console user: the table stays as it is */ }
bool async_queue_dequeue(async_queue_t *q, void *b, size_t n, size_t *o) { return 0; }
static void add_console_line(interactive_t *ip, const char *l, size_t n) { G_unexpected = 1; }
int flush_message(interactive_t *ip) { V_ASSERT(ip != 0, "flush_message is given a connection"); return 1; }
static void setup_accepted_connection(port_def_t *port, socket_fd_t fd, struct sockaddr_in *addr) { G_unexpected = 1; }
void socket_read_select_handler(int i) { G_unexpected = 1; }
void socket_write_select_handler(int i) { G_unexpected = 1; }

void h_process_io_idle(void) {
  V_FILL(main_options_t, G_opts, opts); g_main_options = &G_opts;
  /* idle driver: no connection was ever made, console mode off */
  all_users = 0; max_users = 0;
  static char dummy_queue[64]; V_DECL(int, console_mode); g_console_queue = console_mode ? (async_queue_t *)dummy_queue : 0;
  V_DECL(uint32_t, evtype); V_DECL(uint32_t, data);
  V_DECL(int, console_evt);
  g_io_events[0].fd = -1; g_io_events[0].completion_key = console_evt ? CONSOLE_COMPLETION_KEY : 0; g_io_events[0].context = 0;
  g_io_events[0].event_type = evtype; g_io_events[0].bytes_transferred = data; g_io_events[0].buffer = 0;
  g_num_io_events = 1;
  process_io();
  V_ASSERT(all_users == 0 && max_users == 0, "a wake-up on an idle driver creates no connection");
  V_COVER(console_evt && console_mode && G_console_inits == 1); V_COVER(!console_evt);
}
