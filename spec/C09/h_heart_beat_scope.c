/*@harness
{"tier":"quick","mode":"bounded(heart-beat list of at most 2 objects; tick counters, timer flags and program tables symbolic; one call of call_heart_beat)","tus":["src/backend.c"],"include_tu":true,"dfcc":false,
 "functions":["call_heart_beat"],
 "stub_out":["look_for_objects_to_swap"],
 "flags":["--bounds-check","--pointer-check"],"unwind":5,"timeout":600,
 "expect":["h_heart_beat_scope.assertion","call_function.assertion","call_out.assertion","call_heart_beat.pointer_dereference"],
 "native":null,
 "assumptions":["call_function (the LPC heart_beat() itself), look_for_objects_to_swap (reset / clean_up round) and call_out (the call_out round) are stubs that check what error_handler() would see if the task they run failed: error_handler switches off the heart beat of `current_heart_beat`",
                "the heart_beat() stub does not edit the list (list surgery during a round: C11 hb_removal_step)"],
 "notes":"C09 'only the failing object's heart beat is switched off': during heart_beat() of object X the failing-object register designates X; during every other task of the tick (reset, clean_up, call_outs) it designates nobody"}
@*/
#ifndef V_NATIVE
#include "backend.c"
#endif
#include "vharness.h"
static object_t O0, O1; static program_t P0, P1;
main_options_t *g_main_options; static main_options_t G_opts; int config_int[NUM_CONFIG_INTS];
static int G_hb_runs, G_swap_runs, G_callout_runs;
static void look_for_objects_to_swap(void) {
  if (G_swap_runs < 10) G_swap_runs++;
  V_ASSERT(current_heart_beat == 0, "while reset()/clean_up() of arbitrary objects run, no object is marked as 'the heart beat being executed' (an error there must not switch off anybody's heart beat)");
}
void call_out(void) {
  if (G_callout_runs < 10) G_callout_runs++;
  V_ASSERT(current_heart_beat == 0, "while call_outs run, no object is marked as 'the heart beat being executed' (a failing call_out must not switch off anybody's heart beat)");
}
void call_function(program_t *prog, int index, int num_arg, svalue_t *ret) {
  if (G_hb_runs < 10) G_hb_runs++;
  V_ASSERT(current_heart_beat != 0 && current_heart_beat->prog == prog && (current_heart_beat == &O0 || current_heart_beat == &O1), "while heart_beat() of an object runs, that object - and only it - is marked as the heart beat being executed");
}
int debug_message_with_src(const char *a, const char *b, const char *c, int d, const char *e, ...) { return 0; }
time_t time(time_t *t) { if (t) *t = 1000; return 1000; }

void h_heart_beat_scope(void) {
  static heart_beat_t arr[4];
  V_FILL(main_options_t, G_opts, opts); g_main_options = &G_opts;
  V_DECL(int, n); V_DECL(short, t0); V_DECL(short, t1); V_DECL(short, hb0); V_DECL(short, hb1); V_DECL(v_ushort, fl0); V_DECL(v_ushort, fl1);
  V_ASSUME(0 <= n && n <= 2 && t0 >= -5 && t0 <= 5 && t1 >= -5 && t1 <= 5);
  O0.prog = &P0; O1.prog = &P1; P0.heart_beat = hb0; P1.heart_beat = hb1; O0.flags = fl0; O1.flags = fl1;
  arr[0].ob = &O0; arr[0].heart_beat_ticks = t0; arr[0].time_to_heart_beat = 2;
  arr[1].ob = &O1; arr[1].heart_beat_ticks = t1; arr[1].time_to_heart_beat = 2;
  heart_beats = arr; max_heart_beats = 4; num_hb_objs = n; heart_beat_index = 0; num_hb_to_do = 0; current_heart_beat = 0; heart_beat_flag = 0;
  V_COVER(n == 2 && t0 == 1 && t1 == 1 && hb0 != -1 && hb1 != -1 && (G_opts.timer_flags & TIMER_FLAG_HEARTBEAT) && (G_opts.timer_flags & TIMER_FLAG_CALLOUT));
  call_heart_beat();
  V_ASSERT(current_heart_beat == 0, "after the tick nobody is marked as executing a heart beat");
  V_ASSERT(G_swap_runs == ((G_opts.timer_flags & TIMER_FLAG_RESET) ? 1 : 0) && G_callout_runs == ((G_opts.timer_flags & TIMER_FLAG_CALLOUT) ? 1 : 0), "the reset and call_out rounds run once when their timer is enabled");
  V_COVER(G_hb_runs == 2 && G_callout_runs == 1);
}
