/*@harness
{"tier":"quick","mode":"bounded(target a string, buffer or array of at most 3 elements; every 64-bit index; both the lvalue form x[i] = v and the assigned-value form (x = y)[i] = v)","tus":["src/interpret.c"],"dfcc":false,
 "functions":["push_indexed_lvalue"],
 "flags":["--bounds-check","--pointer-check","--no-malloc-may-fail","--object-bits","10","--no-simplify"],"unwind":6,"timeout":900,
 "expect":["push_indexed_lvalue.pointer_dereference","push_indexed_lvalue.assertion","h_lvalue_index.assertion"],
 "ignore":[{"class":"array_bounds","text_contains":"->item","why":"struct-hack member item[1]: the injected index assertions are the obligation"},
           {"class":"overflow","text_contains":"- ind","why":"size - index on int64 wraps for INT64_MIN in ISO C terms; the range check that follows is what C01 needs"}],
 "native":{"inject":true},
 "assumptions":["push_indexed_lvalue is the whole body of the F_INDEX_LVALUE / F_RINDEX_LVALUE opcodes (`push_indexed_lvalue (0|1); break;`); it is called directly",
                "ghost assertions are injected in front of the five statements that form the element address: the index must designate an element of the value (`0 <= ind < size`)",
                "unlink_string_svalue keeps the text and length (its contract: harness unlink_string); find_for_insert / free_svalue are not reached (no mappings)",
                "--no-simplify: works around a CBMC 6.11 defect in dereferences p->u.X->f through a non-first union member (DESIGN 8.2)"],
 "notes":"C01 for x[i] = v and x[<i] = v: the element address formed for the assignment lies inside the target value for every index"}
@*/
/*@prelude file=src/interpret.c
#include "vharness.h"
@*/
/*@inject file=src/interpret.c function=push_indexed_lvalue at=before match="global_lvalue_byte.u.lvalue_byte = (unsigned char *) &lv->u.string[ind];"
      { extern int64_t G_len; V_ASSERT(0 <= ind && ind < G_len, "string element lvalue: the index designates a character of the string"); }
@*/
/*@inject file=src/interpret.c function=push_indexed_lvalue at=before match="global_lvalue_byte.u.lvalue_byte = &lv->u.buf->item[ind];"
      { extern int64_t G_len; V_ASSERT(0 <= ind && ind < G_len, "buffer element lvalue: the index designates a byte of the buffer"); }
@*/
/*@inject file=src/interpret.c function=push_indexed_lvalue at=before match="sp->u.lvalue = lv->u.arr->item + ind;"
      { extern int64_t G_len; V_ASSERT(0 <= ind && ind < G_len, "array element lvalue: the index designates an element of the array"); }
@*/
/*@inject file=src/interpret.c function=push_indexed_lvalue at=before match="global_lvalue_byte.u.lvalue_byte = (sp + 1)->u.buf->item + ind;"
      { extern int64_t G_len; V_ASSERT(0 <= ind && ind < G_len, "buffer element lvalue (assigned value): the index designates a byte of the buffer"); }
@*/
/*@inject file=src/interpret.c function=push_indexed_lvalue at=before match="sp->u.lvalue = (sp + 1)->u.arr->item + ind;"
      { extern int64_t G_len; V_ASSERT(0 <= ind && ind < G_len, "array element lvalue (assigned value): the index designates an element of the array"); }
@*/
#define VM_HAVE_BUFFER
#define VM_HAVE_ARRAY
#include "c01_vm.h"
int64_t eval_cost; int64_t G_len;
void V_STATIC(interpret_c, push_indexed_lvalue)(int reverse);
void unlink_string_svalue(svalue_t *s) { }
buffer_t *allocate_buffer(size_t n) { V_UNREACHABLE_STUB("allocate_buffer"); V_STOP(); return 0; }
void free_buffer(buffer_t *b) { }
void free_array(array_t *a) { }
array_t *add_array(array_t *a, array_t *b) { V_UNREACHABLE_STUB("add_array"); V_STOP(); return 0; }
void free_svalue(svalue_t *v, const char *why) { }
static buffer_t G_buf; static array_t G_arr;     /* headers only: the injected assertions decide, elements are not touched */

void h_lvalue_index(void) {
  static svalue_t var;
  V_FILL(main_options_t, G_opts, opts);
  vm_init();
  V_DECL(int, kind); V_DECL(int, n); V_DECL(int, rev); V_DECL(int, assigned_form); V_DECL(int64_t, idx);
  V_ASSUME(0 <= kind && kind <= 2 && 0 <= n && n <= 3);
  G_len = n;
  svalue_t *tgt = assigned_form ? &G_stk[6] : &var;
  if (kind == 0) { V_DECL(int, sub); V_ASSUME(sub == STRING_MALLOC || sub == STRING_SHARED || sub == STRING_CONSTANT); vm_string(0, tgt, n, sub); }
  else if (kind == 1) { G_buf.ref = 2; G_buf.size = (unsigned)n; tgt->type = T_BUFFER; tgt->subtype = 0; tgt->u.buf = &G_buf; }
  else { G_arr.ref = 2; G_arr.size = (unsigned short)n; tgt->type = T_ARRAY; tgt->subtype = 0; tgt->u.arr = &G_arr; }
  G_stk[5].type = T_NUMBER; G_stk[5].subtype = 0; G_stk[5].u.number = idx;
  if (!assigned_form) { G_stk[6].type = T_LVALUE; G_stk[6].subtype = 0; G_stk[6].u.lvalue = &var; }
  sp = &G_stk[6];
  V_COVER(kind == 2 && n == 2 && !assigned_form);
  V_COVER(kind == 1 && n == 3 && assigned_form && rev);
  V_COVER(kind == 0 && n == 3 && !assigned_form);
  V_STATIC(interpret_c, push_indexed_lvalue)(rev ? 1 : 0);
  V_ASSERT(sp == &G_stk[5] && sp->type == T_LVALUE, "an lvalue replaces index and target on the stack");
  V_COVER(kind == 2 && n == 3 && idx == 2);
}
