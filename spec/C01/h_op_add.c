/*@harness
{"tier":"quick","mode":"bounded(one dispatch of F_ADD / F_ADD_EQ; operand types number, real, string; strings of at most 3 characters; every 64-bit integer and every double)","tus":["src/interpret.c"],"dfcc":false,
 "functions":["eval_instruction"],
 "flags":["--bounds-check","--pointer-check","--no-malloc-may-fail","--object-bits","10"],"reachability":true,"unwind":44,"timeout":900,
 "expect":["sprintf.assertion","eval_instruction.pointer_dereference","h_op_add.assertion"],
 "ignore":[{"class":"overflow","text_contains":"u.number","why":"LPC integer arithmetic on int64 wraps / double-to-int conversion out of range: undefined in ISO C but not one of the memory-safety clauses of C01 (two's complement on every supported compiler)"}],
 "native":{"inject":true},
 "assumptions":["eval_instruction is entered with a two-byte program {opcode}; a ghost step counter injected at the head of its dispatch loop returns after the first instruction (the injected text is listed in the evidence)",
                "sprintf model: the destination must hold the longest text the conversion can print for any value of its argument type (21 bytes for %ld, 318 for %lf)",
                "string allocation / free and error() are stubs (error ends the path)","operands of array, mapping, buffer, object, function and class type are not generated here"],
 "notes":"C01 for the + and += opcodes on numbers, reals and strings: every memory access of the real case F_ADD / F_ADD_EQ code is in bounds"}
@*/
/*@inject file=src/interpret.c function=eval_instruction at=before match="instruction = EXTRACT_UCHAR (pc++);"
      { extern int G_steps, G_max_steps; if (G_steps++ >= G_max_steps) return; }
@*/
#include "c01_vm.h"
#include "efuns_opcode.h"
int64_t eval_cost;
void eval_instruction(const char *p);

static void operand(int k, svalue_t *v) {
  V_DECL(int, ty);
  if (ty == 0) { V_DECL(int64_t, num); v->type = T_NUMBER; v->subtype = 0; v->u.number = num; }
  else if (ty == 1) { V_DECL(uint64_t, bits); v->type = T_REAL; v->subtype = 0; *(uint64_t *)&v->u.real = bits; }
  else {
    V_DECL(int, len); V_DECL(int, sub);
    V_ASSUME(0 <= len && len <= 3 && (sub == STRING_MALLOC || sub == STRING_SHARED || sub == STRING_CONSTANT));
    vm_string(k, v, len, sub);
  }
}

void h_op_add(void) {
  static char prog[2];
  V_FILL(main_options_t, G_opts, opts);
  vm_init();
  V_DECL(int, maxlen); V_ASSUME(maxlen >= 0);
  config_int[__MAX_STRING_LENGTH__ - BASE_CONFIG_INT] = maxlen;
  eval_cost = 1000;
  V_DECL(int, eq);
  static svalue_t target;
  if (!eq) {
    prog[0] = (char)F_ADD;
    operand(0, &G_stk[4]); operand(1, &G_stk[5]); sp = &G_stk[5];

    eval_instruction(prog);
    V_ASSERT(sp == &G_stk[4], "a + b leaves one value on the stack");
    V_ASSERT(sp->type == T_NUMBER || sp->type == T_REAL || sp->type == T_STRING, "the result is a number, a real or a string");
  } else {
    prog[0] = (char)F_ADD_EQ;
    operand(0, &target); operand(1, &G_stk[4]);
    G_stk[5].type = T_LVALUE; G_stk[5].u.lvalue = &target; sp = &G_stk[5];

    eval_instruction(prog);
    V_ASSERT(sp == &G_stk[4], "a += b leaves the value on the stack");
  }
}
