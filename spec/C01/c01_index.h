/* shared body of h_op_index*: IX_KINDS(kind), IX_ENTRY */
#define VM_HAVE_BUFFER
#define VM_HAVE_ARRAY
#include "c01_vm.h"
#include "efuns_opcode.h"
int64_t eval_cost;
void v_case_index(void); void v_case_rindex(void);
static int G_freed;
int G_buf_bytes;   /* ghost: capacity in bytes of the harness buffer's item area (struct-hack member item[1]) */
buffer_t *allocate_buffer(size_t n) { V_UNREACHABLE_STUB("allocate_buffer"); V_STOP(); return 0; }
void free_buffer(buffer_t *b) { G_freed++; }
void free_array(array_t *a) { G_freed++; }
array_t *add_array(array_t *a, array_t *b) { V_UNREACHABLE_STUB("add_array"); V_STOP(); return 0; }
void free_object(object_t *o, const char *why) { }

void IX_ENTRY(void) {
  V_FILL(main_options_t, G_opts, opts);
  vm_init();
  eval_cost = 1000;
  V_DECL(int, rev); V_DECL(int, kind); V_DECL(int, n); V_DECL(int, idx_is_string);
  V_ASSUME(0 <= n && n <= 3 && IX_KINDS(kind));
  /* index operand */
  if (idx_is_string) vm_string(1, &G_stk[4], 1, STRING_CONSTANT);
  else { V_DECL(int64_t, idx); G_stk[4].type = T_NUMBER; G_stk[4].subtype = 0; G_stk[4].u.number = idx; }
  /* container operand */
  if (kind == 0) {
    V_DECL(int, sub); V_ASSUME(sub == STRING_MALLOC || sub == STRING_SHARED || sub == STRING_CONSTANT);
    vm_string(0, &G_stk[5], n, sub);
  } else if (kind == 1) {
    /* as allocate_buffer: calloc(sizeof(buffer_t) + n - 1); the empty buffer is the static null_buffer */
    /* (one malloc of concrete size per n: blocks of symbolic size cost minutes of propositional conversion) */
    buffer_t *b = n <= 1 ? (buffer_t *)malloc(sizeof(buffer_t)) : n == 2 ? (buffer_t *)malloc(sizeof(buffer_t) + 1) : (buffer_t *)malloc(sizeof(buffer_t) + 2);
    V_ASSUME(b != 0);
    b->ref = 1; b->size = (unsigned)n;
    G_buf_bytes = (int)(n <= 1 ? sizeof(buffer_t) : sizeof(buffer_t) + n - 1) - (int)offsetof(buffer_t, item);   /* bytes of the block from item[0] on */
    G_stk[5].type = T_BUFFER; G_stk[5].subtype = 0; G_stk[5].u.buf = b;
  } else {
    /* as allocate_array: sizeof(array_t) + sizeof(svalue_t) * (n - 1); the empty array is the static the_null_array */
    array_t *a = n <= 1 ? (array_t *)malloc(sizeof(array_t)) : n == 2 ? (array_t *)malloc(sizeof(array_t) + sizeof(svalue_t)) : (array_t *)malloc(sizeof(array_t) + 2 * sizeof(svalue_t));
    V_ASSUME(a != 0);
    a->ref = 1; a->size = (unsigned short)n;
    for (int i = 0; i < 3; i++) if (i < n) { a->item[i].type = T_NUMBER; a->item[i].subtype = 0; a->item[i].u.number = i; }
    G_stk[5].type = T_ARRAY; G_stk[5].subtype = 0; G_stk[5].u.arr = a;
  }
  sp = &G_stk[5];
  V_COVER(n == 2 && !idx_is_string);
  V_COVER(n == 3 && kind == IX_FIRST_KIND);
  if (rev) v_case_rindex(); else v_case_index();
  /* reaching here: a value was produced */
  V_ASSERT(sp == &G_stk[4], "x[i] leaves one value on the stack");
  V_ASSERT(!idx_is_string, "a non-integer index raises an error");
  V_COVER(n == 3 && !rev);
}
