/*@harness
{"tier":"quick","mode":"bounded(target a string, buffer or array of at most 3 elements; every pair of 64-bit bounds; all four forms x[a..b], x[<a..b], x[a..<b], x[<a..<b])","tus":["src/interpret.c"],"dfcc":false,
 "functions":["push_lvalue_range"],
 "flags":["--bounds-check","--pointer-check","--no-malloc-may-fail","--object-bits","10","--no-simplify"],"unwind":6,"timeout":900,
 "expect":["push_lvalue_range.pointer_dereference","push_lvalue_range.assertion","h_lvalue_range.assertion"],
 "ignore":[{"class":"array_bounds","text_contains":"->item","why":"struct-hack member item[1]: the injected index assertions are the obligation"},
           {"class":"overflow","text_contains":"ind","why":"++ind2 at INT_MAX and size - (int)x at INT_MIN are signed overflows in ISO C terms (UBSan reports them); with two's complement wrap the range checks that follow reject the value - not a memory-safety clause of C01, listed in DESIGN 8.3 as an observation"}],
 "native":{"inject":true},
 "assumptions":["push_lvalue_range is the whole body of the four F_xx_RANGE_LVALUE opcodes (`push_lvalue_range (code); break;`); it is called directly",
                "a ghost assertion is injected in front of the statements that record the range in the shared slot global_lvalue_range: this is the precondition assign_lvalue_range / copy_lvalue_range rely on (those two are not under contract: attic)",
                "unlink_string_svalue keeps the text and length (its contract: harness unlink_string); find_for_insert / free_svalue are not reached (no mappings)",
                "--no-simplify: works around a CBMC 6.11 defect in dereferences p->u.X->f through a non-first union member (DESIGN 8.2)"],
 "notes":"C01 for x[a..b] = v: the range recorded for the assignment lies inside the target value for every pair of bounds (ind1 > ind2 is allowed by the driver and means an insertion)"}
@*/
/*@prelude file=src/interpret.c
#include "vharness.h"
@*/
/*@inject file=src/interpret.c function=push_lvalue_range at=before match="global_lvalue_range.ind1 = ind1;"
      { extern int64_t G_len; V_ASSERT(size == G_len, "range lvalue: the recorded size is the length of the target value");
        V_ASSERT(0 <= ind1 && ind1 <= size && 0 <= ind2 && ind2 <= size, "range lvalue: both recorded bounds lie inside the target value (0 <= ind1 <= size, 0 <= ind2 <= size)"); }
@*/
#define VM_HAVE_BUFFER
#define VM_HAVE_ARRAY
#include "c01_vm.h"
int64_t eval_cost; int64_t G_len;
void V_STATIC(interpret_c, push_lvalue_range)(int code);
void unlink_string_svalue(svalue_t *s) { }
buffer_t *allocate_buffer(size_t n) { V_UNREACHABLE_STUB("allocate_buffer"); V_STOP(); return 0; }
void free_buffer(buffer_t *b) { }
void free_array(array_t *a) { }
array_t *add_array(array_t *a, array_t *b) { V_UNREACHABLE_STUB("add_array"); V_STOP(); return 0; }
void free_svalue(svalue_t *v, const char *why) { }
static buffer_t G_buf; static array_t G_arr;     /* headers only: the injected assertions decide, elements are not touched */

void h_lvalue_range(void) {
  static svalue_t var;
  V_FILL(main_options_t, G_opts, opts);
  vm_init();
  V_DECL(int, kind); V_DECL(int, n); V_DECL(int, form); V_DECL(int64_t, ia); V_DECL(int64_t, ib);
  V_ASSUME(0 <= kind && kind <= 2 && 0 <= n && n <= 3 && 0 <= form && form <= 3);
  G_len = n;
  if (kind == 0) { V_DECL(int, sub); V_ASSUME(sub == STRING_MALLOC || sub == STRING_SHARED || sub == STRING_CONSTANT); vm_string(0, &var, n, sub); }
  else if (kind == 1) { G_buf.ref = 2; G_buf.size = (unsigned)n; var.type = T_BUFFER; var.subtype = 0; var.u.buf = &G_buf; }
  else { G_arr.ref = 2; G_arr.size = (unsigned short)n; var.type = T_ARRAY; var.subtype = 0; var.u.arr = &G_arr; }
  /* stack: first bound, second bound, &var */
  G_stk[4].type = T_NUMBER; G_stk[4].subtype = 0; G_stk[4].u.number = ia;
  G_stk[5].type = T_NUMBER; G_stk[5].subtype = 0; G_stk[5].u.number = ib;
  G_stk[6].type = T_LVALUE; G_stk[6].subtype = 0; G_stk[6].u.lvalue = &var;
  sp = &G_stk[6];
  V_COVER(kind == 2 && n == 3 && form == 0 && ia == 1 && ib == 2);
  V_COVER(kind == 0 && n == 2 && form == 3);
  int code = form == 0 ? 0x00 : form == 1 ? 0x10 : form == 2 ? 0x11 : 0x01;
  V_STATIC(interpret_c, push_lvalue_range)(code);
  V_ASSERT(sp == &G_stk[4] && sp->type == T_LVALUE, "one lvalue replaces the two bounds and the target on the stack");
  V_COVER(kind == 1 && n == 3);
}
