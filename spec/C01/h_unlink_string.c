/*@harness
{"tier":"quick","mode":"bounded(strings of at most 3 characters; every subtype, reference count 1..3, every value on top of the stack)","tus":["src/stralloc.c"],"dfcc":false,
 "functions":["unlink_string_svalue","int_string_copy","int_string_unlink","int_new_string"],
 "stub_out":["free_string"],
 "flags":["--bounds-check","--pointer-check","--no-malloc-may-fail"],"unwind":8,"timeout":600,
 "expect":["h_unlink_string.assertion","int_string_copy.pointer_dereference"],
 "ignore":[{"class":"overflow","text_contains":"ADD_","why":"string statistics counters (STRING_STATS)"},{"class":"overflow","text_contains":"SUB_","why":"string statistics counters (STRING_STATS)"}],
 "native":{},
 "assumptions":["xalloc does not fail","free_string (shared-string table) is a counting stub","MaxStringLength is at least 3 (no truncation of the harness strings)"],
 "notes":"contract of unlink_string_svalue(s): afterwards s holds a private (STRING_MALLOC, one reference) copy of the text it held before, whatever the value on top of the interpreter stack is; every access is in bounds. Callers (push_indexed_lvalue, push_lvalue_range, capitalize ...) rely on it before writing into the string."}
@*/
#ifdef HAVE_CONFIG_H
#include <config.h>
#endif
#include "src/std.h"
#include "lpc/types.h"
#include "src/stralloc.h"
#include "src/main.h"
#include "vharness.h"
main_options_t *g_main_options; static main_options_t G_opts;
svalue_t *sp;
static int G_shared_freed;
void *xcalloc(size_t a, size_t b) { void *r = calloc(a, b); V_ASSUME(r != 0); return r; }
char *xalloc(size_t n) { char *r = malloc(n); V_ASSUME(r != 0); return r; }
void free_string(char *s) { G_shared_freed++; }
int debug_message_with_src(const char *a, const char *b, const char *c, int d, const char *e, ...) { return 0; }
void fatal(char *fmt, ...) { V_STOP(); }
void unlink_string_svalue(svalue_t *s);
typedef char cstr_t[sizeof(malloc_block_t) + 8] __attribute__((aligned(8)));
static cstr_t G_s0;

void h_unlink_string(void) {
  static svalue_t target, stk[2];
  V_FILL(main_options_t, G_opts, opts); g_main_options = &G_opts;
  V_DECL(size_t, maxlen); V_ASSUME(maxlen >= 3);
  init_strings(1, maxlen);   /* sets the file-local max_string_length */
  V_DECL(int, len); V_DECL(int, sub); V_DECL(int, ref); V_DECL(int, on_stack);
  V_ASSUME(0 <= len && len <= 3 && 1 <= ref && ref <= 3);
  V_ASSUME(sub == STRING_MALLOC || sub == STRING_SHARED || sub == STRING_CONSTANT);
  V_DECL(char, c0); V_DECL(char, c1); V_DECL(char, c2);
  V_ASSUME(c0 != 0 && c1 != 0 && c2 != 0);
  char *txt = &G_s0[sizeof(malloc_block_t)];
  txt[0] = c0; txt[1] = c1; txt[2] = c2; txt[len] = 0;
  ((malloc_block_t *)&G_s0[0])->size = (unsigned short)len; ((malloc_block_t *)&G_s0[0])->ref = (unsigned short)ref;
  /* the string lives either on top of the stack (capitalize, lower_case ...) or in a variable while the top of the stack
     holds something else (the index of s[i] = c: push_indexed_lvalue; the lvalue itself: push_lvalue_range) */
  svalue_t *s = on_stack ? &stk[1] : &target;
  s->type = T_STRING; s->subtype = (short)sub; s->u.string = txt;
  if (!on_stack) { V_DECL(int64_t, top); stk[1].type = T_NUMBER; stk[1].subtype = 0; stk[1].u.number = top; }
  sp = &stk[1];
  V_COVER(!on_stack && sub == STRING_CONSTANT && len == 2);
  unlink_string_svalue(s);
  V_CHECK(s->type == T_STRING && s->subtype == STRING_MALLOC && __CPROVER_r_ok(MSTR_BLOCK(s->u.string), sizeof(malloc_block_t) + 1), "the svalue now holds a malloc string");
  V_CHECK(MSTR_REF(s->u.string) == 1, "which has exactly one reference (it is private to this svalue)");
  V_CHECK(MSTR_SIZE(s->u.string) == len && __CPROVER_r_ok(s->u.string, (size_t)len + 1), "of the same length");
  V_ASSERT((len < 1 || s->u.string[0] == c0) && (len < 2 || s->u.string[1] == c1) && (len < 3 || s->u.string[2] == c2) && s->u.string[len] == 0, "and the same text");
  V_ASSERT(sub != STRING_MALLOC || ref == 1 || (s->u.string != txt && MSTR_REF(txt) == ref - 1), "a malloc string that was shared gives up one reference of the old block");
  V_COVER(sub == STRING_SHARED && len == 3);
}
