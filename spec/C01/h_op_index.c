/*@harness
{"tier":"quick","mode":"bounded(one dispatch of F_INDEX / F_RINDEX; containers: string of at most 3 characters, buffer and array of at most 3 elements; every 64-bit index; index operand a number or a string)","tus":["src/interpret.c"],"dfcc":false,
 "functions":["eval_instruction"],
 "flags":["--bounds-check","--pointer-check","--no-malloc-may-fail","--object-bits","10"],"reachability":true,"unwind":6,"timeout":900,
 "expect":["eval_instruction.pointer_dereference","h_op_index.assertion"],
 "ignore":[{"class":"array_bounds","text_contains":"->item[","why":"struct-hack member item[1]: the declared bound is 1 while the block is allocated for n elements; the object-bounds check of the same access (pointer_dereference / the r_ok assertion in the assign stub) is the obligation"},
           {"class":"overflow","text_contains":"u.number","why":"integer wrap / narrowing in ISO C terms, not a memory-safety clause of C01"}],
 "native":{"inject":true},
 "assumptions":["one instruction is dispatched (ghost step counter injected at the head of the dispatch loop)",
                "buffers and arrays are heap blocks of exactly the size allocate_buffer / allocate_array request (sizeof(header) + n - 1 elements)",
                "free_* and error() are stubs; mapping containers are not generated here"],
 "notes":"C01 for x[i] and x[<i]: every access of the real case F_INDEX / F_RINDEX code stays inside the indexed value for every index"}
@*/
/*@inject file=src/interpret.c function=eval_instruction at=before match="instruction = EXTRACT_UCHAR (pc++);"
      { extern int G_steps, G_max_steps; if (G_steps++ >= G_max_steps) return; }
@*/
#define VM_HAVE_BUFFER
#define VM_HAVE_ARRAY
#include "c01_vm.h"
#include "efuns_opcode.h"
int64_t eval_cost;
void eval_instruction(const char *p);
static int G_freed;
buffer_t *allocate_buffer(size_t n) { V_UNREACHABLE_STUB("allocate_buffer"); V_STOP(); return 0; }
void free_buffer(buffer_t *b) { G_freed++; }
void free_array(array_t *a) { G_freed++; }
array_t *add_array(array_t *a, array_t *b) { V_UNREACHABLE_STUB("add_array"); V_STOP(); return 0; }
void free_object(object_t *o, const char *why) { }

void h_op_index(void) {
  static char prog[2];
  V_FILL(main_options_t, G_opts, opts);
  vm_init();
  eval_cost = 1000;
  V_DECL(int, rev); V_DECL(int, kind); V_DECL(int, n); V_DECL(int, idx_is_string);
  V_ASSUME(0 <= n && n <= 3 && 0 <= kind && kind <= 2);
  /* index operand */
  if (idx_is_string) vm_string(1, &G_stk[4], 1, STRING_CONSTANT);
  else { V_DECL(int64_t, idx); G_stk[4].type = T_NUMBER; G_stk[4].subtype = 0; G_stk[4].u.number = idx; }
  /* container operand */
  if (kind == 0) {
    V_DECL(int, sub); V_ASSUME(sub == STRING_MALLOC || sub == STRING_SHARED || sub == STRING_CONSTANT);
    vm_string(0, &G_stk[5], n, sub);
  } else if (kind == 1) {
    /* as allocate_buffer: calloc(sizeof(buffer_t) + n - 1); the empty buffer is the static null_buffer */
    /* (one malloc of concrete size per n: blocks of symbolic size cost minutes of propositional conversion) */
    buffer_t *b = n <= 1 ? (buffer_t *)malloc(sizeof(buffer_t)) : n == 2 ? (buffer_t *)malloc(sizeof(buffer_t) + 1) : (buffer_t *)malloc(sizeof(buffer_t) + 2);
    V_ASSUME(b != 0);
    b->ref = 1; b->size = (unsigned)n;
    G_stk[5].type = T_BUFFER; G_stk[5].subtype = 0; G_stk[5].u.buf = b;
  } else {
    /* as allocate_array: sizeof(array_t) + sizeof(svalue_t) * (n - 1); the empty array is the static the_null_array */
    array_t *a = n <= 1 ? (array_t *)malloc(sizeof(array_t)) : n == 2 ? (array_t *)malloc(sizeof(array_t) + sizeof(svalue_t)) : (array_t *)malloc(sizeof(array_t) + 2 * sizeof(svalue_t));
    V_ASSUME(a != 0);
    a->ref = 1; a->size = (unsigned short)n;
    for (int i = 0; i < 3; i++) if (i < n) { a->item[i].type = T_NUMBER; a->item[i].subtype = 0; a->item[i].u.number = i; }
    G_stk[5].type = T_ARRAY; G_stk[5].subtype = 0; G_stk[5].u.arr = a;
  }
  sp = &G_stk[5];
  V_COVER(kind == 1 && n == 2 && !idx_is_string);
  /* the opcode byte must be a constant on each path: with a symbolic opcode symex explores every case of the switch */
  if (rev) { prog[0] = (char)F_RINDEX; eval_instruction(prog); } else { prog[0] = (char)F_INDEX; eval_instruction(prog); }
  /* reaching here: a value was produced */
  V_ASSERT(sp == &G_stk[4], "x[i] leaves one value on the stack");
  V_ASSERT(!idx_is_string, "a non-integer index raises an error");
  V_COVER(kind == 2 && n == 3);
}
