/*@harness
{"tier":"quick","mode":"width","tus":["src/outbuf.c"],"dfcc":false,
 "functions":["outbuf_extend","outbuf_add","outbuf_addchar"],
 "flags":["--bounds-check","--pointer-check","--no-malloc-may-fail"],"unwind":3,"timeout":900,
 "expect":["h_outbuf.assertion","outbuf_addchar.assertion","outbuf_add.assertion","strcpy.assertion"],
 "native":null,
 "assumptions":["one operation from ANY state of an output buffer that satisfies the representation invariant (buffer absent, or real_size <= capacity <= 65535 and the block's recorded size = capacity); capacity is ghost state maintained by the allocation stubs int_new_string / extend_string",
                "strlen / strcpy / strncpy are range-checking stubs (length symbolic up to 200 000, content not modelled)"],
 "notes":"C01 for the output buffer every %O / sprintf / dump efun writes through: each write lands inside the block as it is currently allocated, and the invariant holds again afterwards (inductive step; the initial state 'no buffer' satisfies it)"}
@*/
/*@prelude file=src/outbuf.c
#include "vharness.h"
@*/
/*@inject file=src/outbuf.c function=outbuf_addchar at=before match="*(outbuf->buffer + outbuf->real_size) = c;"
      { extern size_t G_cap; V_ASSERT(outbuf->real_size <= G_cap, "the character is stored inside the block as it is now allocated"); }
@*/
/*@inject file=src/outbuf.c function=outbuf_addchar at=before match="*(outbuf->buffer + outbuf->real_size++) = c;"
      { extern size_t G_cap; V_ASSERT(outbuf->real_size + 1 <= G_cap, "the character and its terminator are stored inside the block as it is now allocated"); }
@*/
/*@inject file=src/outbuf.c function=outbuf_addchar at=before match="outbuf->buffer[USHRT_MAX] = 0;"
      { extern size_t G_cap; V_ASSERT(USHRT_MAX <= G_cap, "the terminator at offset 65535 is inside the block as it is now allocated"); }
@*/
/*@inject file=src/outbuf.c function=outbuf_add at=before match="outbuf->buffer[USHRT_MAX] = 0;"
      { extern size_t G_cap; V_ASSERT(USHRT_MAX <= G_cap, "the terminator at offset 65535 is inside the block as it is now allocated"); }
@*/
/*@inject file=src/outbuf.c function=outbuf_addchar at=before match="*(outbuf->buffer + outbuf->real_size) = 0;"
      { extern size_t G_cap; V_ASSERT(outbuf->real_size <= G_cap, "the terminator is stored inside the block as it is now allocated"); }
@*/
#ifdef HAVE_CONFIG_H
#include <config.h>
#endif
#include "src/std.h"
#include "lpc/types.h"
#include "src/outbuf.h"
#include "src/stralloc.h"
#include "src/main.h"
#include "vharness.h"
main_options_t *g_main_options; static main_options_t G_opts;
svalue_t *sp;
size_t G_cap; static size_t G_len;
static struct { malloc_block_t h; char s[65536 + 8]; } G_blk;     /* the one string block of the harness: large enough for every legal offset; its current extent is the ghost G_cap */
int debug_message_with_src(const char *a, const char *b, const char *c, int d, const char *e, ...) { return 0; }
static void set_cap(size_t n) { G_cap = n; G_blk.h.size = (unsigned short)(n < USHRT_MAX ? n : USHRT_MAX); G_blk.h.ref = 1; }
char *int_new_string(size_t n) { V_ASSERT(n <= 262144, "allocation within the harness block"); if (n > 262144) V_STOP(); set_cap(n); return G_blk.s; }
char *extend_string(char *p, size_t n) { V_ASSERT(p == G_blk.s, "the buffer's own block is resized"); set_cap(n); return G_blk.s; }
size_t strlen(const char *s) { return G_len; }
#define V_OFF(d) ((size_t)__CPROVER_POINTER_OFFSET(d) - sizeof(malloc_block_t))
char *strcpy(char *d, const char *s) { V_ASSERT(__CPROVER_same_object(d, G_blk.s) && V_OFF(d) + G_len <= G_cap, "strcpy writes the text and its terminator inside the block as it is now allocated"); return d; }
char *strncpy(char *d, const char *s, size_t n) { V_ASSERT(__CPROVER_same_object(d, G_blk.s) && V_OFF(d) <= G_cap && n <= G_cap - V_OFF(d), "strncpy writes inside the block as it is now allocated"); return d; }
size_t outbuf_extend(outbuffer_t *o, size_t len); void outbuf_add(outbuffer_t *o, const char *s); void outbuf_addchar(outbuffer_t *o, char c);

static int inv(outbuffer_t *o) { return o->buffer == 0 || (o->buffer == G_blk.s && o->real_size <= G_cap && G_cap <= USHRT_MAX && MSTR_SIZE(o->buffer) == G_cap); }

void h_outbuf(void) {
  static outbuffer_t ob; static char txt[4] = "abc";
  V_FILL(main_options_t, G_opts, opts); g_main_options = &G_opts;
  V_DECL(int, has_buf); V_DECL(size_t, cap0); V_DECL(size_t, rs0); V_DECL(size_t, len); V_DECL(int, op);
  V_ASSUME(cap0 <= USHRT_MAX && rs0 <= cap0 && len <= 200000 && 0 <= op && op <= 2);
  if (has_buf) { set_cap(cap0); ob.buffer = G_blk.s; ob.real_size = rs0; } else { ob.buffer = 0; ob.real_size = 0; G_cap = 0; }
  G_len = len;
  V_COVER(has_buf && cap0 == USHRT_MAX && rs0 == USHRT_MAX && op == 2);
  V_COVER(!has_buf && len == 100000 && op == 1);
  if (op == 0) {
    size_t r = outbuf_extend(&ob, len);
    V_ASSERT(r <= len, "outbuf_extend grants at most what was asked for");
    V_ASSERT(ob.buffer == 0 || ob.real_size + r <= G_cap, "what outbuf_extend grants fits behind the text already there");
  } else if (op == 1) outbuf_add(&ob, txt);
  else outbuf_addchar(&ob, 'x');
  V_ASSERT(inv(&ob), "the output buffer satisfies its representation invariant again");
}
