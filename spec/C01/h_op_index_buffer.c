/*@harness
{"tier":"quick","mode":"bounded(the case F_INDEX / F_RINDEX blocks; container: buffer of at most 3 bytes; every 64-bit index; index operand a number or a string)","tus":["src/interpret.c"],"dfcc":false,
 "functions":["v_case_index","v_case_rindex"],
 "flags":["--bounds-check","--pointer-check","--no-malloc-may-fail","--object-bits","10","--no-simplify"],"unwind":6,"timeout":900,
 "expect":["v_case_index.pointer_dereference","v_case_rindex.pointer_dereference","h_op_index_buffer.assertion"],
 "ignore":[{"class":"array_bounds","text_contains":"->item[","why":"struct-hack member item[1]: the declared bound is 1 while the block is allocated for n elements; the object-bounds check of the same access (pointer_dereference / the r_ok assertion in the assign stub) is the obligation"},
           {"class":"overflow","text_contains":"u.number","why":"integer wrap / narrowing in ISO C terms, not a memory-safety clause of C01"}],
 "native":{"inject":true},
 "assumptions":["the case F_INDEX / case F_RINDEX blocks of eval_instruction are extracted mechanically on every run (the lines between the two case labels, byte for byte, wrapped in a one-case switch inside a new function); dropped: the dispatch loop (opcode fetch, eval_cost accounting) and every other case","--no-simplify: works around a CBMC 6.11 defect (a dereference p->u.X->f through a non-first union member resolves to an invalid object when the simplifier is on; see DESIGN 8.2)",
                "buffers and arrays are heap blocks of exactly the size allocate_buffer / allocate_array request (sizeof(header) + n - 1 elements)",
                "free_* and error() are stubs; mapping containers are not generated here"],
 "notes":"C01 for x[i] and x[<i]: every access of the real case F_INDEX / F_RINDEX code stays inside the indexed value for every index"}
@*/
/*@extract file=src/interpret.c function=eval_instruction from="case F_INDEX:" to="case F_RINDEX:" name=v_case_index
  int i = 0, n = 0; double real = 0; svalue_t *lval = 0; int instruction = F_INDEX; unsigned short offset = 0;
@*/
/*@extract file=src/interpret.c function=eval_instruction from="case F_RINDEX:" to="#ifdef F_JUMP_WHEN_ZERO" name=v_case_rindex
  int i = 0, n = 0; double real = 0; svalue_t *lval = 0; int instruction = F_RINDEX; unsigned short offset = 0;
@*/
/*@prelude file=src/interpret.c
#include "vharness.h"
@*/
/*@inject file=src/interpret.c function=eval_instruction at=before match="i = sp->u.buf->item[i];" nth=1
      { extern int G_buf_bytes; V_ASSERT(0 <= i && i < G_buf_bytes, "buffer index stays inside the allocated block (item[] is a struct-hack member: CBMC's own bounds check cannot see its real extent)"); }
@*/
/*@inject file=src/interpret.c function=eval_instruction at=before match="i = sp->u.buf->item[i];" nth=2
      { extern int G_buf_bytes; V_ASSERT(0 <= i && i < G_buf_bytes, "buffer index stays inside the allocated block (item[] is a struct-hack member: CBMC's own bounds check cannot see its real extent)"); }
@*/
#define IX_KINDS(k) ((k) == 1)
#define IX_FIRST_KIND 1
#define IX_ENTRY h_op_index_buffer
#include "c01_index.h"
