/*@harness
{"tier":"quick","mode":"width","tus":["lib/efuns/sprintf.c"],"dfcc":false,
 "functions":["v_sprintf_number"],
 "stub_out":["sprintf.c:sprintf_error"],
 "flags":["--bounds-check","--pointer-check"],"unwind":14,"timeout":600,
 "expect":["h_sprintf_number.assertion","v_sprintf_number.array_bounds"],
 "native":null,
 "assumptions":["the statements of string_print_formatted that build the C format (`cheat`) for %d %f %c %o %x %X and print the number into `temp` are extracted mechanically on every run (from the opening brace of the integer-type branch, which declares the two buffers, to the line before the result is measured); the locals finfo, pres, carg are supplied by the harness with arbitrary values",
                "sprintf model: the destination must hold what the conversion prints for the value and precision at hand (worst case over the argument type)"],
 "notes":"C01 for sprintf(\"%<flags>.<precision><d|f|c|o|x|X>\", number): the two fixed local buffers (format, text) are large enough for every precision and every value"}
@*/
/*@extract file=lib/efuns/sprintf.c function=string_print_formatted from="{ /* one of the integer" to="int tmpl = (int)strlen (temp);" name=v_sprintf_number wrap=block open_braces=2
  extern format_info G_finfo; extern int G_pres; extern svalue_t G_carg;
  format_info finfo = G_finfo; int pres = G_pres; svalue_t *carg = &G_carg; int i = 0;
@*/
#ifdef HAVE_CONFIG_H
#include <config.h>
#endif
#include "src/std.h"
#include "lpc/types.h"
#include "src/main.h"
#include "vharness.h"
#include <stdarg.h>
typedef unsigned int format_info;
main_options_t *g_main_options; static main_options_t G_opts;
format_info G_finfo; int G_pres; svalue_t G_carg; svalue_t *sp;
static int G_errors;
int debug_message_with_src(const char *a, const char *b, const char *c, int d, const char *e, ...) { return 0; }
void error(const char *f, ...) { if (G_errors < 10) G_errors++; V_STOP(); }
static int v_digits(int v) { int n = 1; while (n < 12 && v >= 10) { v /= 10; n++; } return n; }
/* sprintf model.  Two uses: sprintf(cheat + i, "%d", pres) and sprintf(temp, cheat, value) */
int sprintf(char *buf, const char *fmt, ...) {
  va_list ap; va_start(ap, fmt);
  if (v_streq(fmt, "%d")) {
    int v = va_arg(ap, int); int n = v_digits(v < 0 ? 0 : v) + (v < 0 ? 11 : 0);
    V_ASSERT(__CPROVER_w_ok(buf, (size_t)n + 1), "the format buffer holds the precision digits");
    for (int k = 0; k < 11; k++) if (k < n) buf[k] = '1';
    buf[n] = 0; va_end(ap); return n;
  }
  /* value print: at least max(precision, digits) characters; %f of a double needs up to 317 + precision */
  size_t need = (size_t)(G_pres > 0 ? G_pres : 0) + (G_carg.type == T_REAL ? 318 : 24);
  V_ASSERT(__CPROVER_w_ok(buf, need), "the text buffer holds the number for every value and every precision");
  buf[0] = '1'; buf[1] = 0; va_end(ap); return 1;
}
int snprintf(char *buf, size_t n, const char *fmt, ...) {
  V_ASSERT(n >= 2 && __CPROVER_w_ok(buf, n), "snprintf is given a destination of the stated size");
  if (v_streq(fmt, "%d")) { va_list ap; va_start(ap, fmt); int v = va_arg(ap, int); va_end(ap); int k = v_digits(v < 0 ? 0 : v); if ((size_t)k > n - 1) k = (int)n - 1; for (int j = 0; j < 11; j++) if (j < k) buf[j] = '1'; buf[k] = 0; return k; }
  buf[0] = '1'; buf[1] = 0; return 1;
}
void V_STATIC(sprintf_c, sprintf_error)(int which) { V_STOP(); }
void v_sprintf_number(void);

void h_sprintf_number(void) {
  V_FILL(main_options_t, G_opts, opts); g_main_options = &G_opts;
  V_DECL(uint32_t, finfo); V_DECL(int, pres); V_DECL(int, is_real); V_DECL(int64_t, num); V_DECL(uint64_t, bits);
  V_ASSUME(pres >= 0);
  G_finfo = finfo; G_pres = pres;
  if (is_real) { G_carg.type = T_REAL; *(uint64_t *)&G_carg.u.real = bits; } else { G_carg.type = T_NUMBER; G_carg.u.number = num; }
  V_COVER(pres == 400 && is_real);
  v_sprintf_number();
  V_ASSERT(1, "formatted");
}
