/*@harness
{"tier":"quick","mode":"width","tus":["src/error_context.c"],"dfcc":false,
 "functions":["error","bad_argument"],
 "stub_out":["error_handler"],
 "flags":["--bounds-check","--pointer-check"],"unwind":20,"timeout":600,
 "expect":["error.array_bounds","vsnprintf.assertion","h_error_formatting.assertion"],
 "ignore":[{"class":"overflow","text_contains":"FREE_MSTR (outbuf.buffer)","why":"string statistics counters (STRING_STATS)"}],
 "native":{"rename":["vsnprintf","strncpy","free"]},
 "assumptions":["vsnprintf stub: C99 semantics - writes at most size-1 characters + NUL and returns the length the full output WOULD have (any value up to 100000, or -1)",
                "outbuf_* / svalue_to_string / query_opcode_name are stubs; the text of the offending LPC value is attacker-chosen (ghost taint: the outbuffer content)",
                "error_handler() ends the evaluation (longjmp model)"],
 "notes":"two clauses of C01 about the error path itself: error() formats into its fixed 8 KiB buffer without ever indexing past it, and attacker-controlled text (the printed value of a bad argument) is never used as a printf format"}
@*/
#ifdef HAVE_CONFIG_H
#include <config.h>
#endif
#include "std.h"
#include "lpc/types.h"
#include "lpc/object.h"
#include "src/outbuf.h"
#include "src/main.h"
#include "vharness.h"
#include <stdarg.h>
main_options_t *g_main_options; static main_options_t G_opts;
static int G_handled, G_fmt_is_literal_pct_s = -1, G_fmt_tainted = -1; static const char *G_tainted_text;
/* a malloc string: header + text, as outbuf_fix() produces */
static struct { malloc_block_t hdr; char text[16]; } G_mstr;
#define G_outbuf_text (G_mstr.text)
static char *G_tainted_copy;
void error_handler(const char *m) { G_handled = 1; V_STOP(); }
int debug_message_with_src(const char *a, const char *b, const char *c, int d, const char *e, ...) { return 0; }
int vsnprintf(char *d, size_t n, const char *fmt, va_list ap) {
  V_ASSERT(n >= 1 && __CPROVER_w_ok(d, n), "vsnprintf is given a writable buffer of the stated size");
  /* format provenance: a format must be a literal of the program, never text derived from an LPC value */
  V_ASSERT(!(G_tainted_text && (fmt == G_tainted_text || fmt == (const char *)G_tainted_copy)), "attacker-controlled text (the printed value of an LPC argument, or a copy of it) is never used as a printf format");
  V_DECL(int, vsn_len); V_ASSUME(vsn_len >= -1 && vsn_len <= 100000);
  size_t w = (vsn_len < 0) ? 0 : ((size_t)vsn_len < n - 1 ? (size_t)vsn_len : n - 1);
  V_DECL(char, vsn_last); if (w > 0) d[w - 1] = vsn_last; d[w] = 0;
  return vsn_len;
}
/* bad_argument's helpers */
void outbuf_zero(outbuffer_t *o) { o->buffer = 0; o->real_size = 0; }
void outbuf_add(outbuffer_t *o, const char *s) { }
void outbuf_addv(outbuffer_t *o, const char *f, ...) { }
void outbuf_fix(outbuffer_t *o) { G_mstr.hdr.ref = 1; G_mstr.hdr.size = 2; o->buffer = G_outbuf_text; }       /* the text now holds the printed value of the offending argument */
void svalue_to_string(svalue_t *v, outbuffer_t *o, int a, char b, int c) { }
const char *query_opcode_name(int i) { return "efun"; }
void free(void *p) { }
/* strncpy into the 8 KiB local: copies the (short) tainted text; the copy is tainted too */
char *strncpy(char *d, const char *s, size_t n) { for (int i = 0; i < 16 && (size_t)i < n; i++) { d[i] = s[i]; if (!s[i]) break; } if (s == G_tainted_text) G_tainted_copy = d; return d; }
void bad_argument(svalue_t *val, int type, int arg, int instr);
void error(const char *fmt, ...);

void h_error_formatting(void) {
  V_FILL(main_options_t, G_opts, opts); g_main_options = &G_opts;
  V_DECL(int, which);
  if (which == 0) {
    /* error("%s", <any text>) as every efun does it */
    static char txt[4] = "abc";
    error("%s", txt);
  } else {
    /* bad argument whose printed value is attacker text beginning with "%n" */
    static svalue_t v; v.type = T_STRING;
    G_outbuf_text[0] = '%'; G_outbuf_text[1] = 'n'; G_outbuf_text[2] = 0; G_tainted_text = G_outbuf_text;
    V_DECL(int, ty); V_DECL(int, argn); V_DECL(int, instr);
    V_ASSUME(ty >= 0 && ty < 0x400 && argn >= 1 && argn <= 4 && instr >= 0 && instr < 1000);
    bad_argument(&v, ty, argn, instr);
  }
  V_ASSERT(0, "error()/bad_argument() never return to their caller");
}
