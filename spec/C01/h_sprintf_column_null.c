/*@harness
{"tier":"quick","mode":"bounded(one column conversion of field width 1: %=1s given 0 (text is the temporary copy of the null message, concrete 3-character text) )","tus":["lib/efuns/sprintf.c"],"include_tu":true,"dfcc":false,
 "functions":["string_print_formatted","add_column"],
 "stub_out":["svalue_to_string","sprintf_error","add_nstr","add_pad","add_justified"],"reachability":true,
 "flags":["--bounds-check","--pointer-check","--object-bits","10"],
 "ignore":[{"class":"overflow","text_contains":"FREE_MSTR","why":"string statistics counters (STRING_STATS), unconstrained in this harness"}],"unwind":6,"timeout":900,
 "expect":["h_sprintf_column_null.assertion"],
 "native":null,
 "assumptions":["svalue_to_string (the %O renderer) and string_copy are allocation stubs that return a fresh counted string holding one of three concrete texts; free_svalue of a malloc'ed string releases its block with free(), so CBMC's own deallocated-object check decides every later read",
                "add_justified / add_nstr / add_pad (justify and copy into the result buffer) are stubs that carry the obligation 'the source text is readable for the stated length'; the result buffer itself is not built (outbuf_* are inert; h_outbuf covers them)",
                "sprintf_error ends the path","table mode (%#) shares the defect and the repair but is not under contract: its harness ran the SAT back end out of memory; checks inside add_table are not reached and not counted"],
 "notes":"C01 'never uses freed memory' for sprintf column mode (%=) when the text is the temporary string made for %O or for a 0 given to %s: the pending column keeps pointing into it across output lines"}
@*/
#define V_SCEN 2
#define V_TEXTS 1
#define V_ENTRY h_sprintf_column_null
#include "C01/c01_sprintf_cols.h"
