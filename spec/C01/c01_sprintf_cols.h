/* shared body of the sprintf column-mode harnesses; V_SCEN selects the format, V_TEXTS the number of concrete texts, V_ENTRY the entry point */
#ifndef V_NATIVE
#include "sprintf.c"
#endif
#include "vharness.h"
#include "src/main.h"
main_options_t *g_main_options; static main_options_t G_opts;
svalue_t *sp;
static int G_made, G_released, G_errors;
typedef struct { malloc_block_t h; char s[4]; } tstr_t;
int debug_message_with_src(const char *a, const char *b, const char *c, int d, const char *e, ...) { return 0; }
void error(const char *f, ...) { if (G_errors < 10) G_errors++; V_STOP(); }
char *xalloc(size_t n) { char *r = malloc(n); V_ASSUME(r != 0); return r; }

static const char *G_text = "abc";
static char *v_temp_string(void) {
  tstr_t *t = malloc(sizeof(tstr_t)); V_ASSUME(t != 0);
  /* concrete texts: with symbolic characters every line-breaking loop of add_column/add_table is unbounded for symex */
  t->s[0] = G_text[0]; t->s[1] = G_text[1]; t->s[2] = G_text[2]; t->s[3] = 0;
  t->h.size = 3; t->h.ref = 1;
  if (G_made < 10) G_made++;
  return t->s;
}
void svalue_to_string(svalue_t *obj, outbuffer_t *ob, int indent, int trailing, int flags) { ob->buffer = v_temp_string(); ob->real_size = MSTR_SIZE(ob->buffer); }
char *string_copy(const char *s, const char *why) { return v_temp_string(); }
void free_svalue(svalue_t *v, const char *why) {
  if (v->type == T_STRING && v->subtype == STRING_MALLOC) {
    char *s = v->u.string;
    free(MSTR_BLOCK(s));
    if (G_released < 10) G_released++;
  }
}
void outbuf_zero(outbuffer_t *ob) { ob->buffer = 0; ob->real_size = 0; }
void outbuf_fix(outbuffer_t *ob) { }
void outbuf_addchar(outbuffer_t *ob, char c) { if (ob->real_size < 1000) ob->real_size++; }
size_t outbuf_extend(outbuffer_t *ob, size_t n) { return n; }
static void sprintf_error(int which) { V_STOP(); }
static void add_nstr(char *str, size_t len) { V_ASSERT(len == 0 || __CPROVER_r_ok(str, len), "text copied into the result is readable (not released, in bounds)"); }
static void add_pad(pad_info_t *pad, size_t len) { }
static void add_justified(char *str, size_t slen, pad_info_t *pad, int fs, format_info finfo, short int trailing) { V_ASSERT(slen <= 3, "a column line is no longer than the text"); V_ASSERT(slen == 0 || __CPROVER_r_ok(str, slen), "column/table text copied into the result is readable (not released, in bounds)"); }
static unsigned short G_ctype_tab[384] = { [128 + '0' ... 128 + '9'] = (unsigned short)_ISdigit };
static const unsigned short *G_ctype_ptr = &G_ctype_tab[128];
const unsigned short **__ctype_b_loc(void) { return &G_ctype_ptr; }

void V_ENTRY(void) {
  static svalue_t arg[1]; static char lit[4];
  V_FILL(main_options_t, G_opts, opts); g_main_options = &G_opts;
  int which = V_SCEN;
  V_DECL(int, text); V_ASSUME(0 <= text && text <= V_TEXTS - 1);
  G_text = text == 0 ? "abc" : text == 1 ? "a\nb" : "a b";
  char *r;
  if (which == 0)      { arg[0].type = T_NUMBER; arg[0].u.number = 7; r = string_print_formatted("%=1O", 1, arg); }
  else if (which == 1) { arg[0].type = T_NUMBER; arg[0].u.number = 7; r = string_print_formatted("%#1O", 1, arg); }
  else if (which == 2) { arg[0].type = T_NUMBER; arg[0].u.number = 0; r = string_print_formatted("%=1s", 1, arg); }
  else if (which == 3) { arg[0].type = T_NUMBER; arg[0].u.number = 7; r = string_print_formatted("%=1O\n", 1, arg); }
  else {
    /* the text is the caller's own string: nothing temporary is made */
    lit[0] = 'a'; lit[1] = ' '; lit[2] = 'b';
    arg[0].type = T_STRING; arg[0].subtype = STRING_CONSTANT; arg[0].u.string = lit;
    r = string_print_formatted("%=1s", 1, arg);
  }
  V_COVER(G_made == (V_SCEN == 4 ? 0 : 1));
  V_ASSERT(csts == 0, "every pending column and table is finished when sprintf returns");
  V_ASSERT(clean.type == T_NUMBER, "the conversion's temporary slot is empty");
}
