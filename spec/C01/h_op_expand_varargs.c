/*@harness
{"tier":"quick","mode":"bounded(the case F_EXPAND_VARARGS block; value stack of 16 slots; expanded array of 0, 1, 2, 3 or 12 elements with 1 or 2 references; 0 or 1 argument after the expanded one)","tus":["src/interpret.c"],"dfcc":false,
 "functions":["v_case_expand"],
 "flags":["--bounds-check","--pointer-check","--no-malloc-may-fail","--object-bits","10"],"unwind":15,"timeout":900,
 "expect":["v_case_expand.pointer_dereference","scenario.assertion"],
 "ignore":[{"class":"array_bounds","text_contains":"->item[","why":"struct-hack member item[1]: the declared bound is 1 while the block is allocated for n elements; the object-bounds check of the same access decides it"}],
 "native":null,
 "assumptions":["the case F_EXPAND_VARARGS block of eval_instruction is extracted mechanically on every run (the lines between the two case labels, byte for byte, wrapped in a one-case switch inside a new function); dropped: the dispatch loop around it",
                "the value stack is a harness array of 16 slots with end_of_stack 5 slots before its end, as reset_interpreter lays it out; arrays are heap blocks of exactly the size allocate_array requests",
                "free_array / free_empty_array are counting stubs; error() ends the path"],
 "notes":"C01/C04 for f(args...): expanding an array into arguments never writes past the value stack; an array that does not fit raises the stack-overflow error"}
@*/
/*@extract file=src/interpret.c function=eval_instruction from="case F_EXPAND_VARARGS:" to="case F_NEW_CLASS:" name=v_case_expand
  int i = 0, n = 0; int instruction = F_EXPAND_VARARGS;
@*/
#define VM_HAVE_ARRAY
#include "c01_vm.h"
#include "efuns_opcode.h"
extern const char *pc; extern int num_varargs; extern svalue_t *end_of_stack;
svalue_t *end_of_stack;
int64_t eval_cost;
void v_case_expand(void);
static int G_freed, G_flagged;
static svalue_t G_big[16];          /* the value stack of this harness */
void free_array(array_t *a) { G_freed++; }
void free_empty_array(array_t *a) { G_freed++; }
array_t *add_array(array_t *a, array_t *b) { V_UNREACHABLE_STUB("add_array"); V_STOP(); return 0; }
void set_error_state(int flag) { G_flagged = 1; }

static char prog[2];
/* one scenario with a concrete array size and argument position: with symbolic ones the block's memcpy has a symbolic length
   and a symbolic destination inside the stack (minutes of propositional conversion) */
static void scenario(const int n, const int after, array_t *a, int ref) {
  V_ASSUME(a != 0);
  a->ref = (unsigned short)ref; a->size = (unsigned short)n;
  for (int k = 0; k < 12; k++) if (k < n) { a->item[k].type = T_NUMBER; a->item[k].subtype = 0; a->item[k].u.number = 100 + k; }
  /* stack: G_big[0..3] in use below, the array at [4], optionally one more argument at [5] */
  G_big[4].type = T_ARRAY; G_big[4].subtype = 0; G_big[4].u.arr = a;
  G_big[5].type = T_NUMBER; G_big[5].subtype = 0; G_big[5].u.number = 7;
  sp = &G_big[4 + after];
  prog[0] = (char)after; prog[1] = 0; pc = prog;
  num_varargs = 0;
  v_case_expand();
  /* reaching here: no error */
  V_ASSERT(sp == &G_big[4 + after + n - 1], "the array is replaced by its n elements");
  V_ASSERT(sp < end_of_stack, "the value stack stays below its configured end");
  V_ASSERT(num_varargs == n - 1, "the argument count correction is n - 1");
  if (n >= 1) V_ASSERT(G_big[4].type == T_NUMBER && G_big[4].u.number == 100 && G_big[4 + n - 1].u.number == 100 + n - 1, "the elements are on the stack in order");
  if (after) V_ASSERT(sp->type == T_NUMBER && sp->u.number == 7, "the argument after the expanded one is kept on top");
}

void h_op_expand_varargs(void) {
  V_FILL(main_options_t, G_opts, opts);
  vm_init();
  eval_cost = 1000;
  end_of_stack = &G_big[16 - 5];
  V_DECL(int, which); V_DECL(int, ref);
  V_ASSUME(0 <= which && which <= 9 && 1 <= ref && ref <= 2);
  V_COVER(which == 8);
  V_COVER(which == 7 && ref == 1);
  V_COVER(which == 6 && ref == 2);
  if (which == 0) scenario(0, 0, (array_t *)malloc(sizeof(array_t)), ref);
  else if (which == 1) scenario(0, 1, (array_t *)malloc(sizeof(array_t)), ref);
  else if (which == 2) scenario(1, 0, (array_t *)malloc(sizeof(array_t)), ref);
  else if (which == 3) scenario(1, 1, (array_t *)malloc(sizeof(array_t)), ref);
  else if (which == 4) scenario(2, 0, (array_t *)malloc(sizeof(array_t) + sizeof(svalue_t)), ref);
  else if (which == 5) scenario(2, 1, (array_t *)malloc(sizeof(array_t) + sizeof(svalue_t)), ref);
  else if (which == 6) scenario(3, 0, (array_t *)malloc(sizeof(array_t) + 2 * sizeof(svalue_t)), ref);
  else if (which == 7) scenario(3, 1, (array_t *)malloc(sizeof(array_t) + 2 * sizeof(svalue_t)), ref);
  else if (which == 8) scenario(12, 0, (array_t *)malloc(sizeof(array_t) + 11 * sizeof(svalue_t)), ref);
  else scenario(12, 1, (array_t *)malloc(sizeof(array_t) + 11 * sizeof(svalue_t)), ref);
}
