/*@harness
{"tier":"quick","mode":"bounded(approved path names of at most 12 characters, every content; the two path buffers scaled down to 8 bytes by prelude)","tus":["lib/efuns/file_utils.c"],"dfcc":false,
 "functions":["do_rename","copy_file","get_dir"],
 "stub_out":["check_valid_path","file_utils.c:do_move","file_size","file_utils.c:encode_stat","file_utils.c:match_string"],
 "flags":["--bounds-check","--pointer-check"],"unwind":16,"timeout":900,
 "expect":["h_path_buffers.assertion","sprintf_like.assertion","do_rename.pointer_dereference","get_dir.pointer_dereference"],
 "native":null,
 "assumptions":["MAX_FNAME_SIZE / MAX_PATH_LEN (255 / 1024) are redefined to 2 / 4 for this run: the local path buffers newfrom[] / newto[] then hold 8 bytes and the harness names (up to 12 characters) play the role of names longer than 1281 bytes",
                "check_valid_path is a stub returning approved strings of any content and length up to 12 (path length is not limited by the driver: any LPC string can be a path)",
                "sprintf / snprintf are models that require the destination to hold what the conversion writes (snprintf: at most its size argument) and return the untruncated length; open/stat/read/close/do_move/file_size are inert stubs; opendir/readdir model a directory with one entry whose name is at most MAX_FNAME_SIZE (= NAME_MAX) characters long"],
 "notes":"C01 memory safety of rename(), cp() and get_dir(): the fixed-size local path buffers are never written past their end, whatever the lengths of the approved names"}
@*/
/*@prelude file=lib/efuns/file_utils.c after="^#define MAX_PATH_LEN"
#undef MAX_FNAME_SIZE
#define MAX_FNAME_SIZE 2
#undef MAX_PATH_LEN
#define MAX_PATH_LEN 4
@*/
#include "C15/c15_env.h"
#include <stdarg.h>
#include <sys/stat.h>
#include <fcntl.h>
#include <dirent.h>
#include "lpc/array.h"
object_t *current_object; static object_t G_me; svalue_t apply_ret_value;
#define L 13
static char G_from[L], G_to[L], G_raw[2] = "r";
static int G_checks, G_errors;
void assign_svalue(svalue_t *d, svalue_t *s) { }
void error(const char *fmt, ...) { if (G_errors < 10) G_errors++; V_STOP(); }
char *check_valid_path(const char *path, object_t *o, const char *fn, int w) { G_checks++; return G_checks == 1 ? &G_from[0] : &G_to[0]; }
int file_size(char *f) { V_DECL(int, is_dir); return is_dir ? -2 : 5; }
int V_STATIC(file_utils_c, do_move)(char *from, char *to, int flag) { return 0; }
/* length of a text, never reading past the object it lives in (a buffer the code under test overflowed has no terminator) */
static size_t v_len(const char *s) { size_t room = (size_t)__CPROVER_OBJECT_SIZE(s) - (size_t)__CPROVER_POINTER_OFFSET(s); size_t n = 0; while (n < 2 * L && n < room && s[n]) n++; return n; }
static int sprintf_like(char *d, size_t cap_given, int bounded, const char *a, const char *b) {
  size_t need = v_len(a) + 1 + v_len(b) + 1;
  if (bounded) V_ASSERT(__CPROVER_w_ok(d, cap_given), "snprintf is given a destination of the stated size");
  else V_ASSERT(__CPROVER_w_ok(d, need), "sprintf destination holds <dir>/<name> and its terminator for every pair of names");
  d[0] = 'j'; d[1] = 0;
  return (int)(need - 1);
}
int snprintf(char *d, size_t n, const char *fmt, ...) { va_list ap; va_start(ap, fmt); const char *a = va_arg(ap, const char *); const char *b = va_arg(ap, const char *); va_end(ap); return sprintf_like(d, n, 1, a, b); }
int sprintf(char *d, const char *fmt, ...) {
  if (v_streq(fmt, "./")) { d[0] = '.'; d[1] = '/'; d[2] = 0; return 2; }
  va_list ap; va_start(ap, fmt); const char *a = va_arg(ap, const char *); const char *b = va_arg(ap, const char *); va_end(ap); return sprintf_like(d, 0, 0, a, b);
}
int open(const char *p, int fl, ...) { V_DECL(int, open_fd); return open_fd >= 3 ? 3 : -1; }
int stat(const char *p, struct stat *st) { V_DECL(int, is_dir2); st->st_mode = is_dir2 ? S_IFDIR : S_IFREG; return 0; }
ssize_t read(int fd, void *b, size_t n) { return 0; }
ssize_t write(int fd, const void *b, size_t n) { return (ssize_t)n; }
int close(int fd) { return 0; }
int debug_perror_with_src(const char *a, const char *b, int c, const char *d, const char *e) { return 0; }
int do_rename(char *fr, char *t, int flag); int copy_file(char *from, char *to); array_t *get_dir(char *path, int flags);
/* directory model for get_dir: one entry whose name has 1 or 2 characters (2 = the scaled-down MAX_FNAME_SIZE, i.e. NAME_MAX) */
static struct dirent G_de; static int G_reads_left; static array_t G_arr; int config_int[NUM_CONFIG_INTS];
DIR *opendir(const char *p) { V_DECL(int, dir_ok); G_reads_left = 1; return dir_ok ? (DIR *)&G_de : (DIR *)0; }
struct dirent *readdir(DIR *d) { if (G_reads_left > 0) { G_reads_left--; return &G_de; } return 0; }
void rewinddir(DIR *d) { G_reads_left = 1; }
int closedir(DIR *d) { return 0; }
void qsort(void *b, size_t n, size_t sz, int (*cmp)(const void *, const void *)) { }
void V_STATIC(file_utils_c, encode_stat)(svalue_t *vp, int flags, char *str, struct stat *st) { }
int V_STATIC(file_utils_c, match_string)(char *m, char *s) { V_DECL(int, matches); return matches != 0; }
array_t *allocate_empty_array(size_t n) { V_ASSERT(n <= 1, "at most the one entry of the directory model"); G_arr.size = (unsigned short)n; return &G_arr; }

void h_path_buffers(void) {
  V_FILL(main_options_t, G_opts, opts); g_main_options = &G_opts; current_object = &G_me;
  struct s13 { char b[L]; }; struct s13 nondet_s13(void);
  { struct s13 a = nondet_s13(), b = nondet_s13(); memcpy(G_from, a.b, L); memcpy(G_to, b.b, L); }
  G_from[L - 1] = 0; G_to[L - 1] = 0;
  V_DECL(int, which);
  V_COVER(which && v_len(G_from) == 12 && G_from[11] == '/');
  if (which == 2) {
    V_DECL(int, flags); V_DECL(int, namelen2);
    config_int[__MAX_ARRAY_SIZE__ - BASE_CONFIG_INT] = 100;
    G_de.d_name[0] = 'n'; G_de.d_name[1] = namelen2 ? 'm' : 0; G_de.d_name[2] = 0;
    (void)get_dir(G_raw, flags);
    V_ASSERT(G_checks == 1, "the directory name was put to the master");
    return;
  }
  if (which) { V_DECL(int, flag); (void)do_rename(G_raw, G_raw, flag); }
  else (void)copy_file(G_raw, G_raw);
  V_ASSERT(G_checks == 2, "both names were put to the master");
  V_COVER(!which && v_len(G_to) == 3);
}
