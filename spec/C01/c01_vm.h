#ifndef C01_VM_H
#define C01_VM_H
/* Environment for per-opcode harnesses over the real eval_instruction() (src/interpret.c).
   The harness places symbolic operands on a small value stack, points pc at a two-byte program {opcode, ...}
   and a ghost step counter injected at the head of the dispatch loop returns after the first instruction. */
#ifdef HAVE_CONFIG_H
#include <config.h>
#endif
#include "src/std.h"
#include "lpc/types.h"
#include "lpc/object.h"
#include "lpc/program.h"
#include "lpc/array.h"
#include "lpc/mapping.h"
#include "lpc/buffer.h"
#include "src/interpret.h"
#include "src/stralloc.h"
#include "rc.h"
#include "src/main.h"
#include "vharness.h"
#include <stdarg.h>
main_options_t *g_main_options; static main_options_t G_opts;
int config_int[NUM_CONFIG_INTS];
svalue_t *sp, *fp; control_stack_t *csp; object_t *current_object; 
int G_steps, G_max_steps = 1;      /* ghost: instructions dispatched so far (see the inject block of each harness) */
static int G_errors, G_allocs, G_frees;
static svalue_t G_stk[12];          /* value stack of the harness: operands live at G_stk[4..] */
static control_stack_t G_cs[2];
/* a malloc string block = header + text, kept as a plain char array: writes of the text at a symbolic offset are then
   array updates, not byte updates on a whole struct (measured: 4278 byte updates / 8 GB with the struct) */
#define CSTR_BYTES (sizeof(malloc_block_t) + 24)
typedef char cstr_t[sizeof(malloc_block_t) + 24] __attribute__((aligned(8)));
#define CSTR_H(c) ((malloc_block_t *)&(c)[0])
#define CSTR_S(c) (&(c)[sizeof(malloc_block_t)])
static cstr_t G_s0, G_s1, G_r0, G_r1; static int G_next_str;   /* separate objects, never an array (see DESIGN 8.2) */

void error(const char *fmt, ...) { if (G_errors < 10) G_errors++; V_ASSERT(1, "error reached"); V_STOP(); }
void fatal(char *fmt, ...) { V_STOP(); }
/* use-after-release witness: the text an svalue gave up with free_string_svalue() must not be handed to anything afterwards
   (the driver's trace / debug output prints its %s arguments) */
static const char *G_released_text;
void free_string_svalue(svalue_t *v) { if (G_frees < 10) G_frees++; if (v->subtype & STRING_COUNTED) G_released_text = v->u.string; }
int debug_message_with_src(const char *a, const char *b, const char *c, int d, const char *e, ...) {
  /* e is the printf format: every %s argument is a text that will be read */
  va_list ap; va_start(ap, e);
  for (int i = 0; i < 40 && e[i]; i++) {
    if (e[i] != '%') continue;
    i++;
    if (e[i] == 's') { const char *t = va_arg(ap, const char *); V_ASSERT(G_released_text == 0 || t != G_released_text, "a text printed by the debug/trace output was not already released with free_string_svalue"); }
    else if (e[i] == 'd' || e[i] == 'u' || e[i] == 'x' || e[i] == 'c') (void)va_arg(ap, int);
    else if (e[i] == 'l' || e[i] == 'z') { (void)va_arg(ap, long); while (e[i + 1] == 'l' || e[i + 1] == 'd' || e[i + 1] == 'u') i++; }
    else if (e[i] == 'f' || e[i] == 'g') (void)va_arg(ap, double);
    else if (e[i] == 'p') (void)va_arg(ap, void *);
    else if (e[i] == '%') continue;
    else break;
  }
  va_end(ap);
  return 0;
}
/* trusted copy semantics (reference counting is C06's subject) */
void assign_svalue_no_free(svalue_t *to, svalue_t *from) {
  int live = __CPROVER_r_ok(from, sizeof(*from)) && __CPROVER_w_ok(to, sizeof(*to));
  V_ASSERT(live, "assign_svalue_no_free is given a live source and destination svalue");
  if (!live) V_STOP();
  *to = *from;
}
void assign_svalue(svalue_t *to, svalue_t *from) {
  int live = __CPROVER_r_ok(from, sizeof(*from)) && __CPROVER_w_ok(to, sizeof(*to));
  V_ASSERT(live, "assign_svalue is given a live source and destination svalue");
  if (!live) V_STOP();
  *to = *from;
}

#ifndef VM_OWN_STRINGS
static char *v_alloc(size_t n) {
  if (n > 20 || G_next_str >= 2) V_STOP();
  char *r = G_next_str++ == 0 ? &G_r0[0] : &G_r1[0];
  CSTR_H(r)->size = (unsigned short)n; CSTR_H(r)->ref = 1;
  return CSTR_S(r);
}
char *int_new_string(size_t n) { if (G_allocs < 10) G_allocs++; return v_alloc(n); }
char *extend_string(char *str, size_t n) {
  if (G_allocs < 10) G_allocs++;
  char *r = v_alloc(n);
  for (int i = 0; i < 4 && i < MSTR_SIZE(str); i++) r[i] = str[i];
  return r;
}
#endif
/* Container helpers. A harness that generates operands of a container type defines VM_HAVE_<TYPE> and supplies the helpers
   itself; otherwise reaching one of them is a harness error. (Without bodies CBMC returns an unconstrained pointer and the
   memcpy behind it touches every object: 10 GB.) */
#ifndef VM_HAVE_BUFFER
buffer_t *allocate_buffer(size_t n) { V_UNREACHABLE_STUB("allocate_buffer"); V_STOP(); return 0; }
void free_buffer(buffer_t *b) { V_UNREACHABLE_STUB("free_buffer"); V_STOP(); }
#endif
#ifndef VM_HAVE_ARRAY
array_t *add_array(array_t *a, array_t *b) { V_UNREACHABLE_STUB("add_array"); V_STOP(); return 0; }
void free_array(array_t *a) { V_UNREACHABLE_STUB("free_array"); V_STOP(); }
#endif
#ifndef VM_HAVE_MAPPING
mapping_t *add_mapping(mapping_t *a, mapping_t *b) { V_UNREACHABLE_STUB("add_mapping"); V_STOP(); return 0; }
void free_mapping(mapping_t *m) { V_UNREACHABLE_STUB("free_mapping"); V_STOP(); }
svalue_t *find_in_mapping(mapping_t *m, svalue_t *k) { V_UNREACHABLE_STUB("find_in_mapping"); V_STOP(); return 0; }
#endif
#ifndef V_NATIVE
/* libc model: sprintf cannot know the size of its destination, so the obligation is that the destination holds the
   text the conversion prints for the value at hand: %ld: at most 20 characters; %lf / %f of a double x: "nan"/"inf" forms
   at most 4; |x| < 1e31: at most 1 + 31 + 1 + 6 = 39; any finite double: at most 1 + 309 + 1 + 6 = 317; plus the NUL. */
int sprintf(char *buf, const char *fmt, ...) {
  size_t need = 0;
  va_list ap; va_start(ap, fmt);
  if (v_streq(fmt, "%ld") || v_streq(fmt, "%lld")) need = 21;
  else if (v_streq(fmt, "%lf") || v_streq(fmt, "%f")) {
    double x = va_arg(ap, double);
    if (x != x || x == __builtin_inf() || x == -__builtin_inf()) need = 5;
    else if (x > -1e31 && x < 1e31) need = 40;
    else need = 318;
  }
  else V_ASSERT(0, "harness-sanity: unexpected call: sprintf format not modelled");
  va_end(ap);
  V_ASSERT(__CPROVER_w_ok(buf, need), "sprintf destination is large enough for the value the conversion prints");
  buf[0] = '1'; buf[1] = 0;
  return 1;
}
int snprintf(char *buf, size_t n, const char *fmt, ...) {
  V_ASSERT(n >= 2 && __CPROVER_w_ok(buf, n), "snprintf is given a writable buffer of the stated size");
  buf[0] = '1'; buf[1] = 0;
  return 1;
}
#endif

/* a counted or constant string operand of `len` (<= 3) non-NUL characters */
static void vm_string(int k, svalue_t *v, int len, int subtype) {
  char *c = k == 0 ? &G_s0[0] : &G_s1[0];
  /* arbitrary non-NUL characters (the blocks are zero-initialised statics: they must be written, not assumed about) */
  V_DECL(char, ch0); V_DECL(char, ch1); V_DECL(char, ch2);
  V_ASSUME(ch0 != 0 && ch1 != 0 && ch2 != 0);
  CSTR_S(c)[0] = ch0; CSTR_S(c)[1] = ch1; CSTR_S(c)[2] = ch2;
  CSTR_S(c)[len] = 0; CSTR_H(c)->size = (unsigned short)len; CSTR_H(c)->ref = 1;
  v->type = T_STRING; v->subtype = (short)subtype; v->u.string = CSTR_S(c);
}
static void vm_init(void) {
  g_main_options = &G_opts;   /* the harness fills G_opts itself (V_FILL must appear in the harness file) */
  csp = &G_cs[0]; fp = &G_stk[2];
}
#endif
