/*@harness
{"tier":"quick","mode":"width","tus":["src/simulate.c"],"dfcc":false,
 "functions":["print_svalue","get_line_number"],
 "stub_out":["tell_object","check_legal_string","simulate.c:find_line"],
 "flags":["--bounds-check","--pointer-check"],"unwind":12,"timeout":600,
 "expect":["sprintf.assertion","h_print_svalue.assertion"],
 "native":null,
 "assumptions":["sprintf model: the destination must hold what the conversion prints; the length of the object name is ghost state (any value up to PATH_MAX - 3, the longest name load_object accepts - virtual objects need no file of that name)",
                "tell_object / check_legal_string are stubs; string values are not generated (they are passed through, not formatted)"],
 "notes":"C01 for write(value) and for the '/file:line' text of every error report: the formatting buffers of print_svalue and get_line_number hold the text for every number, real, object name and source file name"}
@*/
#ifdef HAVE_CONFIG_H
#include <config.h>
#endif
#include "src/std.h"
#include "lpc/types.h"
#include "lpc/object.h"
#include "lpc/program.h"
#include "src/main.h"
#include "vharness.h"
#include <stdarg.h>
#include <limits.h>
main_options_t *g_main_options; static main_options_t G_opts;
static size_t G_name_len; static char G_name[PATH_MAX]; static int G_told;
int debug_message_with_src(const char *a, const char *b, const char *c, int d, const char *e, ...) { return 0; }
void tell_object(object_t *ob, const char *s) { if (G_told < 10) G_told++; }
void check_legal_string(const char *s) { }
int sprintf(char *buf, const char *fmt, ...) {
  size_t need;
  if (v_streq(fmt, "OBJ(/%s)")) need = 5 + G_name_len + 1 + 1;
  else if (v_streq(fmt, "/%s:%d")) need = 1 + G_name_len + 1 + 11 + 1;
  else if (v_streq(fmt, "%ld") || v_streq(fmt, "%lld")) need = 21;
  else if (v_streq(fmt, "%g")) need = 14;             /* -1.23457e+308 */
  else { V_ASSERT(0, "harness-sanity: unexpected call: sprintf format"); need = 1; }
  V_ASSERT(__CPROVER_w_ok(buf, need), "sprintf destination holds the text for the value at hand");
  buf[0] = 0; return 0;
}
int snprintf(char *buf, size_t n, const char *fmt, ...) { V_ASSERT(n >= 1 && __CPROVER_w_ok(buf, n), "snprintf is given a destination of the stated size"); buf[0] = 0; return 0; }
void print_svalue(svalue_t *arg); char *get_line_number(const char *p, const program_t *progp);
/* find_line answers 'found' with a file name of the ghost length (a program or include file name: any path the file system allows) */
int V_STATIC(simulate_c, find_line)(const char *p, const program_t *progp, char **ret_file, int *ret_line) { V_DECL(int, line); *ret_file = G_name; *ret_line = line; return 0; }

void h_print_svalue(void) {
  static svalue_t v; static object_t ob;
  V_FILL(main_options_t, G_opts, opts); g_main_options = &G_opts;
  V_DECL(int, kind); V_DECL(size_t, nlen); V_DECL(int64_t, num); V_DECL(uint64_t, bits);
  V_ASSUME(nlen >= 1 && nlen <= PATH_MAX - 3);
  G_name_len = nlen; G_name[nlen] = 0; ob.name = G_name;
  if (kind == 0) { v.type = T_OBJECT; v.u.ob = &ob; }
  else if (kind == 1) { v.type = T_NUMBER; v.u.number = num; }
  else { v.type = T_REAL; *(uint64_t *)&v.u.real = bits; }
  V_COVER(kind == 0 && nlen == 3000);
  if (kind == 3) { static program_t prog; (void)get_line_number("x", &prog); V_COVER(nlen == 300); return; }
  print_svalue(&v);
  V_ASSERT(G_told == 1, "the value is told to the command giver once");
}
