/*@harness
{"tier":"quick","mode":"width","tus":["src/interpret.c","lib/lpc/operator.c"],"dfcc":false,
 "functions":["v_case_divide","v_case_mod","f_div_eq","f_mod_eq"],
 "flags":["--bounds-check","--pointer-check","--no-malloc-may-fail","--object-bits","10"],"unwind":4,"timeout":600,
 "expect":["v_case_divide.overflow","v_case_mod.overflow","f_div_eq.overflow","f_mod_eq.overflow","h_op_divmod.assertion"],
 "ignore":[{"class":"overflow","text_contains":"u.real","why":"float-to-integer conversion of an out-of-range real (number /= real): undefined in ISO C, yields an arbitrary integer on the supported targets - not a memory-safety clause of C01"}],
 "native":{"inject":true},
 "assumptions":["the case F_DIVIDE and case F_MOD blocks of eval_instruction are extracted mechanically on every run (byte-for-byte copy of the lines between two case labels into a one-case switch); dropped: the dispatch loop and every other case",
                "operands are numbers or reals with every value; error() ends the path; bad_argument is not reached"],
 "notes":"C01 'never terminates the driver process' for / % /= %= on integers: the hardware division is never asked for INT64_MIN / -1 (SIGFPE on x86-64) nor for a zero divisor"}
@*/
/*@extract file=src/interpret.c function=eval_instruction from="case F_DIVIDE:" to="case F_DIV_EQ:" name=v_case_divide
  int i = 0, n = 0; double real = 0; svalue_t *lval = 0; int instruction = F_DIVIDE; unsigned short offset = 0;
@*/
/*@extract file=src/interpret.c function=eval_instruction from="case F_MOD:" to="case F_MOD_EQ:" name=v_case_mod
  int i = 0, n = 0; double real = 0; svalue_t *lval = 0; int instruction = F_MOD; unsigned short offset = 0;
@*/
#include "c01_vm.h"
#include "efuns_opcode.h"
int64_t eval_cost;
void v_case_divide(void); void v_case_mod(void); void f_div_eq(void); void f_mod_eq(void);
void bad_argument(svalue_t *v, int t, int a, int i) { V_STOP(); }
void bad_arg(int a, int i) { V_STOP(); }

static void operand(svalue_t *v, int allow_real) {
  V_DECL(int, is_real);
  if (is_real && allow_real) { V_DECL(uint64_t, bits); v->type = T_REAL; v->subtype = 0; *(uint64_t *)&v->u.real = bits; }
  else { V_DECL(int64_t, num); v->type = T_NUMBER; v->subtype = 0; v->u.number = num; }
}

void h_op_divmod(void) {
  static svalue_t target;
  V_FILL(main_options_t, G_opts, opts);
  vm_init();
  V_DECL(int, which); V_ASSUME(0 <= which && which <= 3);
  if (which <= 1) {
    operand(&G_stk[4], which == 0); operand(&G_stk[5], which == 0); sp = &G_stk[5];
    V_COVER(which == 0 && G_stk[4].type == T_NUMBER && G_stk[5].type == T_NUMBER && G_stk[5].u.number == -1);
    if (which == 0) v_case_divide(); else v_case_mod();
    V_ASSERT(sp == &G_stk[4], "a / b and a % b leave one value on the stack");
  } else {
    operand(&target, which == 2); operand(&G_stk[4], which == 2);
    G_stk[5].type = T_LVALUE; G_stk[5].subtype = 0; G_stk[5].u.lvalue = &target; sp = &G_stk[5];
    V_COVER(which == 3 && G_stk[4].u.number == -1);
    if (which == 2) f_div_eq(); else f_mod_eq();
    V_ASSERT(sp == &G_stk[4], "a /= b and a %= b leave the value on the stack");
  }
}
