/*@harness
{"tier":"quick","mode":"bounded(program name of at most 4 characters, every content; an object that inherits nothing)","tus":["lib/efuns/replace_program.c"],"dfcc":false,
 "functions":["f_replace_program"],
 "flags":["--bounds-check","--pointer-check","--no-malloc-may-fail"],"unwind":8,"timeout":600,
 "expect":["f_replace_program.pointer_dereference"],
 "native":null,
 "assumptions":["the current object's program inherits nothing, so the lookup ends in the 'has to be inherited' error; error() ends the path",
                "strlen / strcpy / strcat are CBMC's library models"],
 "notes":"C01 for replace_program(name): building the file name (appending .c when missing) never reads or writes outside the temporary name buffer, for every name including the empty and one-character ones"}
@*/
#ifdef HAVE_CONFIG_H
#include <config.h>
#endif
#include "src/std.h"
#include "lpc/types.h"
#include "lpc/object.h"
#include "lpc/program.h"
#include "src/interpret.h"
#include "src/main.h"
#include "vharness.h"
main_options_t *g_main_options; static main_options_t G_opts;
svalue_t *sp; object_t *current_object; object_t *simul_efun_ob;
static int G_errors;
void f_replace_program(int num_arg, int instruction);
void error(const char *fmt, ...) { if (G_errors < 10) G_errors++; V_STOP(); }
void bad_arg(int a, int b) { V_STOP(); }
int debug_message_with_src(const char *a, const char *b, const char *c, int d, const char *e, ...) { return 0; }
void free_string_svalue(svalue_t *v) { }
char *xalloc(size_t n) { char *r = malloc(n); V_ASSUME(r != 0); return r; }

void h_replace_program(void) {
  static svalue_t stk[2]; static object_t ob; static program_t prog; static char name[5];
  V_FILL(main_options_t, G_opts, opts); g_main_options = &G_opts;
  V_DECL(int, len); V_ASSUME(0 <= len && len <= 4);
  for (int i = 0; i < 4; i++) { V_DECL(char, c); V_ASSUME(c != 0); name[i] = c; }
  name[len] = 0;
  prog.num_inherited = 0; prog.func_ref = 0; ob.prog = &prog; current_object = &ob; simul_efun_ob = 0;
  stk[1].type = T_STRING; stk[1].subtype = STRING_CONSTANT; stk[1].u.string = name;
  sp = &stk[1];
  V_COVER(len == 0);
  V_COVER(len == 4 && name[2] == '.' && name[3] == 'c');
  f_replace_program(1, 0);
  V_ASSERT(0, "harness-sanity: with nothing inherited replace_program always raises an error");
}
