/*@harness
{"tier":"quick","mode":"width","tus":["lib/efuns/datetime.c"],"dfcc":false,
 "functions":["f_ctime"],
 "flags":["--bounds-check","--pointer-check","--no-malloc-may-fail"],"unwind":30,"timeout":300,
 "expect":["f_ctime.pointer_dereference","h_ctime.assertion"],
 "native":null,
 "assumptions":["ctime() model: for a time whose year does not fit an int the C library answers NULL (glibc does for |t| beyond about 6.7e16); otherwise a 25-character text ending in a newline",
                "int_new_string is an exact-size allocation stub; error() ends the path"],
 "notes":"C01 for ctime(t) with every 64-bit t: the efun never dereferences the NULL the C library returns for unrepresentable years"}
@*/
#ifdef HAVE_CONFIG_H
#include <config.h>
#endif
#include "src/std.h"
#include "lpc/types.h"
#include "src/interpret.h"
#include "src/main.h"
#include "vharness.h"
#include <time.h>
main_options_t *g_main_options; static main_options_t G_opts;
svalue_t *sp; static svalue_t G_stk[4]; static int G_errors;
int debug_message_with_src(const char *a, const char *b, const char *c, int d, const char *e, ...) { return 0; }
void error(const char *f, ...) { if (G_errors < 10) G_errors++; V_STOP(); }
static char G_text[26] = "Thu Jan  1 00:00:00 1970\n";
char *ctime(const time_t *t) { return (*t > 67768036191676799L || *t < -67768040609740800L) ? (char *)0 : G_text; }
char *int_new_string(size_t n) { V_ASSERT(n <= 26, "the result is not longer than ctime's text"); char *b = malloc(sizeof(malloc_block_t) + 27); V_ASSUME(b != 0); ((malloc_block_t *)b)->size = (unsigned short)n; ((malloc_block_t *)b)->ref = 1; return b + sizeof(malloc_block_t); }
void f_ctime(void);

void h_ctime(void) {
  V_FILL(main_options_t, G_opts, opts); g_main_options = &G_opts;
  V_DECL(int64_t, t);
  G_stk[1].type = T_NUMBER; G_stk[1].subtype = 0; G_stk[1].u.number = t; sp = &G_stk[1];
  V_COVER(t == 9223372036854775807L);
  f_ctime();
  V_ASSERT(sp == &G_stk[1] && sp->type == T_STRING, "ctime answers a string for every representable time");
  V_COVER(t == 0);
}
