/*@harness
{"tier":"quick","mode":"bounded(subject of at most 3 characters, one-character pattern, replacement of 0 or 1 characters; every 64-bit first/last/max argument, 3 to 5 arguments)","tus":["lib/efuns/string.c"],"dfcc":false,
 "functions":["f_replace_string"],
 "flags":["--bounds-check","--pointer-check","--no-malloc-may-fail"],"unwind":5,"timeout":900,
 "expect":["f_replace_string.assertion","h_replace_string_steps.assertion"],
 "native":null,
 "assumptions":["an injected ghost counter at the head of each scan loop of the one-character branch carries the obligation 'one step per character of the subject': the work of the efun is bounded by its operands, whatever the numeric arguments",
                "extend_string / unlink_string_svalue / pop_n_elems are stubs (the subject is a malloc'ed string with one reference, edited in place); error() and bad_argument() end the path",
                "the multi-character pattern branches (skip table) and the growing-replacement branch are not covered"],
 "notes":"C04 'any evaluation the driver starts ends within the configured evaluation cost': replace_string is charged one instruction, so its own loops must be bounded by the subject length for every first/last; also the documented result for the one-character case"}
@*/
/*@inject file=lib/efuns/string.c function=f_replace_string at=before match="if (*src == *pattern)" nth=1
  V_CHECK(++G_steps <= G_len, "the scan takes one step per character of the subject (first/last do not add work)");
@*/
/*@inject file=lib/efuns/string.c function=f_replace_string at=before match="if (*src++ == *pattern)" nth=1
  V_CHECK(++G_steps <= G_len, "the scan takes one step per character of the subject (deleting form)");
@*/
/*@prelude file=lib/efuns/string.c
#include "vharness.h"
extern int G_steps, G_len;
@*/
#ifdef HAVE_CONFIG_H
#include <config.h>
#endif
#include "src/std.h"
#include "src/interpret.h"
#include "rc.h"
#include "src/stralloc.h"
#include "src/main.h"
#include "vharness.h"
main_options_t *g_main_options; static main_options_t G_opts;
int config_int[NUM_CONFIG_INTS];
svalue_t *sp; int st_num_arg; svalue_t const0u;
int G_steps, G_len;
static int G_errors;
typedef struct { malloc_block_t h; char s[8]; } cstr_t;
static cstr_t S, P, R;

void error(const char *fmt, ...) { if (G_errors < 10) G_errors++; V_STOP(); }
void fatal(char *fmt, ...) { V_STOP(); }
void bad_argument(svalue_t *val, int type, int arg, int instr) { V_STOP(); }
int debug_message_with_src(const char *a, const char *b, const char *c, int d, const char *e, ...) { return 0; }
void free_string_svalue(svalue_t *v) { }
void unlink_string_svalue(svalue_t *v) { V_ASSERT(v->type == T_STRING, "only a string is made private"); }
void pop_n_elems(size_t n) { V_ASSERT(n <= 5, "pop count"); sp -= n; }
void assign_svalue_no_free(svalue_t *to, svalue_t *from) { *to = *from; }
char *int_new_string(size_t n) { V_UNREACHABLE_STUB("int_new_string"); V_STOP(); return 0; }
char *extend_string(char *str, size_t n) {
  V_ASSERT(str == S.s, "the subject itself is resized");
  V_ASSERT(n <= (size_t)G_len, "replacing by something not longer never grows the subject");
  S.h.size = (unsigned short)n; return str;
}

void h_replace_string_steps(void) {
  static svalue_t stk[6];
  V_FILL(main_options_t, G_opts, opts); g_main_options = &G_opts;
  V_DECL(int, maxlen); V_ASSUME(maxlen >= 8);
  config_int[__MAX_STRING_LENGTH__ - BASE_CONFIG_INT] = maxlen;
  V_DECL(int, len); V_DECL(int, rlen); V_DECL(int, nargs); V_DECL(int64_t, n4); V_DECL(int64_t, n5);
  V_ASSUME(0 <= len && len <= 3 && 0 <= rlen && rlen <= 1 && 3 <= nargs && nargs <= 5);
  char orig[4];
  for (int i = 0; i < 3; i++) { V_DECL(char, c); V_ASSUME(c != 0); S.s[i] = c; orig[i] = c; }
  S.s[len] = 0; orig[len] = 0; S.h.size = (unsigned short)len; S.h.ref = 1;
  { V_DECL(char, pc); V_ASSUME(pc != 0); P.s[0] = pc; P.s[1] = 0; P.h.size = 1; P.h.ref = 1; }
  { V_DECL(char, rc); V_ASSUME(rc != 0); R.s[0] = rc; R.s[rlen] = 0; R.h.size = (unsigned short)rlen; R.h.ref = 1; }
  stk[1].type = T_STRING; stk[1].subtype = STRING_MALLOC; stk[1].u.string = S.s;
  stk[2].type = T_STRING; stk[2].subtype = STRING_MALLOC; stk[2].u.string = P.s;
  stk[3].type = T_STRING; stk[3].subtype = STRING_MALLOC; stk[3].u.string = R.s;
  stk[4].type = T_NUMBER; stk[4].u.number = n4;
  stk[5].type = T_NUMBER; stk[5].u.number = n5;
  sp = &stk[nargs]; st_num_arg = nargs;
  G_len = len; G_steps = 0;
  /* the documented range of occurrences to replace (unsigned, as the efun reads them) */
  uint64_t first = 0, last = 0;
  if (nargs == 4) last = (uint64_t)n4;
  if (nargs == 5) { first = (uint64_t)n4; last = (uint64_t)n5; }
  if (last == 0) last = (uint64_t)maxlen;
  V_COVER(nargs == 5 && n4 > 1000000 && len == 3 && S.s[0] == P.s[0]);
  f_replace_string();
  V_ASSERT(sp == &stk[1] && sp->type == T_STRING && sp->u.string == S.s, "the edited subject is the one value left on the stack");
  /* result against the documented meaning, character by character */
  int occ = 0, o = 0, ok = 1;
  for (int i = 0; i < 3; i++) if (i < len) {
    if (orig[i] == P.s[0]) {
      occ++;
      if (first <= last && (uint64_t)occ >= first && (uint64_t)occ <= last) { if (rlen) { ok = ok && S.s[o] == R.s[0]; o++; } }
      else { ok = ok && S.s[o] == orig[i]; o++; }
    } else { ok = ok && S.s[o] == orig[i]; o++; }
  }
  V_ASSERT(ok && S.s[o] == 0, "exactly the occurrences first..last of the pattern are replaced, everything else is kept");
  V_COVER(nargs == 5 && len == 3 && occ == 3 && n4 == 2 && n5 == 2);
}
