/*@harness
{"tier":"quick","mode":"width","tus":["lib/lpc/mapping.c"],"dfcc":false,
 "functions":["find_for_insert"],
 "stub_out":["svalue_to_int","msameval","new_map_node","growMap"],
 "flags":["--bounds-check","--pointer-check","--no-malloc-may-fail"],"unwind":4,"timeout":600,
 "expect":["h_mapping_insert.assertion","error.assertion","find_for_insert.pointer_dereference"],
 "ignore":[{"class":"overflow","text_contains":"total_mapping","why":"mapping statistics counters"}],
 "native":null,
 "assumptions":["svalue_to_int / msameval (hash and key comparison) answer arbitrarily; new_map_node hands out a fresh node; growMap is not reached (the bucket threshold is kept away from zero)",
                "mapping_too_large() raises the LPC error (ends the path); the mapping has one bucket holding a chain of at most 2 nodes; its element count is any value from 0 to MaxMappingSize; MaxMappingSize is any int below INT_MAX (at INT_MAX itself ++count would overflow)"],
 "notes":"C04 'no LPC value ever exceeds the configured maximum mapping size' for the insertion primitive behind m[k] = v, m += ([...]) and every efun that stores into a mapping: a new node is added only while count < MaxMappingSize; at the limit the error is raised and the count is left unchanged"}
@*/
#ifdef HAVE_CONFIG_H
#include <config.h>
#endif
#include "src/std.h"
#include "lpc/types.h"
#include "lpc/mapping.h"
#include "rc.h"
#include "src/main.h"
#include "vharness.h"
main_options_t *g_main_options; static main_options_t G_opts;
int config_int[NUM_CONFIG_INTS];
svalue_t const0, const0u;
static int G_too_large, G_new_nodes, G_count_at_error;
static mapping_t G_map; static mapping_node_t N0, N1, NEWN; static mapping_node_t *G_table[1];
static int G_count0, G_max0;
void error(const char *fmt, ...) {
  V_ASSERT(G_count0 == G_max0 && G_map.count == G_count0 && G_new_nodes == 0, "the size error is raised only at the limit, before a node is added, and leaves the count unchanged");
  V_STOP();
}
void fatal(char *fmt, ...) { V_STOP(); }
int debug_message_with_src(const char *a, const char *b, const char *c, int d, const char *e, ...) { return 0; }
void free_svalue(svalue_t *v, const char *w) { }
void assign_svalue_no_free(svalue_t *to, svalue_t *from) { *to = *from; }
int svalue_to_int(svalue_t *v) { V_DECL(int, hash); return hash; }
int msameval(svalue_t *a, svalue_t *b) { V_DECL(int, same); return same != 0; }
mapping_node_t *new_map_node(void) { if (G_new_nodes < 10) G_new_nodes++; return &NEWN; }
int V_STATIC(mapping_c, growMap)(mapping_t *m) { V_UNREACHABLE_STUB("growMap"); V_STOP(); return 0; }
svalue_t *find_for_insert(mapping_t *m, svalue_t *lv, int doTheFree);

void h_mapping_insert(void) {
  static svalue_t key;
  V_FILL(main_options_t, G_opts, opts); g_main_options = &G_opts;
  V_DECL(int, maxsz); V_DECL(int, count); V_DECL(int, chain); V_DECL(int, dofree);
  V_ASSUME(0 <= maxsz && maxsz < 2147483647 && 0 <= count && count <= maxsz && 0 <= chain && chain <= 2);
  config_int[__MAX_MAPPING_SIZE__ - BASE_CONFIG_INT] = maxsz; G_count0 = count; G_max0 = maxsz;
  G_map.ref = 1; G_map.table = G_table; G_map.table_size = 0; G_map.unfilled = 100; G_map.count = count;
  G_table[0] = chain == 0 ? 0 : &N0; N0.next = chain == 2 ? &N1 : 0; N1.next = 0;
  key.type = T_NUMBER; key.u.number = 1;
  V_COVER(count == maxsz && chain == 1);
  svalue_t *slot = find_for_insert(&G_map, &key, dofree);
  /* reaching here: no error was raised */
  V_ASSERT(slot != 0, "a value slot is returned");
  if (G_new_nodes) {
    V_ASSERT(count < maxsz && G_map.count == count + 1, "a node is added only below MaxMappingSize and is counted");
    V_ASSERT(G_table[0] == &NEWN && NEWN.next == (chain == 0 ? (mapping_node_t *)0 : &N0) && slot == &NEWN.values[1], "the new node heads its bucket and keeps the old chain; the slot is its value");
  } else {
    V_ASSERT(G_map.count == count && (slot == &N0.values[1] || slot == &N1.values[1]), "an existing key yields its own value slot and changes nothing");
  }
  V_COVER(G_new_nodes == 1 && chain == 2);
  V_COVER(G_new_nodes == 0 && chain == 2);
}
