/*@harness
{"tier":"quick","mode":"bounded(string operands of at most 3 characters for the copy phase; the size decision of repeat_string is checked for every 64-bit count, every counted length below 65535 and every MaxStringLength)","tus":["lib/efuns/string.c"],"dfcc":false,
 "functions":["f_repeat_string","EXTEND_SVALUE_STRING","SVALUE_STRING_ADD_LEFT","SVALUE_STRING_JOIN"],
 "flags":["--bounds-check","--pointer-check","--no-malloc-may-fail"],"unwind":12,"timeout":900,
 "expect":["int_new_string.assertion","extend_string.assertion","h_string_sizes.assertion"],
 "native":{},
 "assumptions":["int_new_string/extend_string are allocation stubs that carry the obligation 'requested length <= MaxStringLength' (the real allocators in src/stralloc.c do not check)",
                "error() ends the path","the three string-join macros of src/interpret.h are expanded in harness-owned wrappers with symbolic operands; their eight expansion sites in eval_instruction (F_ADD, F_ADD_EQ) are not themselves under contract",
                "MaxStringLength is a non-negative int (lib/rc/rc.cpp)"],
 "notes":"C04 'no LPC value ever exceeds the configured maximum string size, whichever operator or efun builds it' for repeat_string and the + / += string paths"}
@*/
#ifdef HAVE_CONFIG_H
#include <config.h>
#endif
#include "src/std.h"
#include "src/interpret.h"
#include "rc.h"
#include "src/stralloc.h"
#include "src/main.h"
#include "vharness.h"
main_options_t *g_main_options; static main_options_t G_opts;
int config_int[NUM_CONFIG_INTS];
svalue_t *sp;
static int G_max;                 /* configured MaxStringLength */
static size_t G_want; static int G_have_want;   /* exact mathematical size the operation is entitled to ask for */
static int G_allocs, G_frees, G_errors;
typedef struct { malloc_block_t h; char s[16]; } cstr_t;
static cstr_t A, B, R0, R1;
static int G_next, G_decision_only, G_count_ok = 1;

void error(const char *fmt, ...) { if (G_errors < 10) G_errors++; V_ASSERT(1, "error reached"); V_STOP(); }
void fatal(char *fmt, ...) { V_STOP(); }
int debug_message_with_src(const char *a, const char *b, const char *c, int d, const char *e, ...) { return 0; }
void free_string_svalue(svalue_t *v) { if (G_frees < 10) G_frees++; }

static char *v_alloc(size_t n) {
  /* beyond the small copy window the contents are not followed: the size obligation above already decided */
  if (n > 8 || G_decision_only) V_STOP();
  cstr_t *r = G_next++ == 0 ? &R0 : &R1;
  r->h.size = (unsigned short)n; r->h.ref = 1;
  return r->s;
}
char *int_new_string(size_t n) {
  if (G_allocs < 10) G_allocs++;
  V_ASSERT(n <= (size_t)G_max, "a new string is never longer than MaxStringLength");
  V_ASSERT(G_count_ok, "no allocation when the repeat count alone puts the result beyond every MaxStringLength (the 64-bit size computation cannot have wrapped)");
  V_ASSERT(!G_have_want || n == G_want, "the allocation is the exact size of the result");
  return v_alloc(n);
}
char *extend_string(char *str, size_t n) {
  if (G_allocs < 10) G_allocs++;
  V_ASSERT(n <= (size_t)G_max, "a string is never extended beyond MaxStringLength");
  V_ASSERT(!G_have_want || n == G_want, "the extension is the exact size of the result");
  char *r = v_alloc(n);
  for (int i = 0; i < 8 && i < MSTR_SIZE(str); i++) r[i] = str[i];
  return r;
}

static void mk(cstr_t *c, svalue_t *v, int len, int subtype, int ref) {
  for (int i = 0; i < 4; i++) { if (i < len) V_ASSUME(c->s[i] != 0); }
  c->s[len] = 0; c->h.size = (unsigned short)len; c->h.ref = (unsigned short)ref;
  v->type = T_STRING; v->subtype = (short)subtype; v->u.string = c->s;
}
static int v_len(const char *s) { int n = 0; while (n < 15 && s[n]) n++; return n; }

static void w_extend(svalue_t *x, char *y) { EXTEND_SVALUE_STRING(x, y, "h"); }
static void w_add_left(char *y) { SVALUE_STRING_ADD_LEFT(y, "h"); }
static void w_join(svalue_t *x, svalue_t *y) { SVALUE_STRING_JOIN(x, y, "h"); }

void h_string_sizes(void) {
  static svalue_t stk[4];
  V_FILL(main_options_t, G_opts, opts); g_main_options = &G_opts;
  V_DECL(int, maxlen); V_ASSUME(maxlen >= 0);
  G_max = maxlen; config_int[__MAX_STRING_LENGTH__ - BASE_CONFIG_INT] = maxlen;
  V_DECL(int, which);
  if (which == 0) {
    /* repeat_string(str, count): counted string whose recorded length is any value below USHRT_MAX */
    V_DECL(v_ushort, len); V_DECL(int64_t, count); V_DECL(int, sub);
    V_ASSUME(len < USHRT_MAX);
    /* two sub-modes: the size decision for every width (path ends at the allocation), and the copy phase for small operands */
    V_DECL(int, small);
    if (small) V_ASSUME(len <= 3 && count <= 5); else G_decision_only = 1;
    V_ASSUME(sub == STRING_MALLOC || sub == STRING_SHARED);
    V_FILL(cstr_t, A, a);
    A.h.size = len; A.h.ref = 1;
    for (int i = 0; i < 4; i++) if (i < len) V_ASSUME(A.s[i] != 0);
    if (len <= 3) A.s[len] = 0;
    stk[0].type = T_STRING; stk[0].subtype = (short)sub; stk[0].u.string = A.s;
    stk[1].type = T_NUMBER; stk[1].subtype = 0; stk[1].u.number = count;
    sp = &stk[1];
    if (count > 1) {
      /* what the efun is entitled to allocate, in mathematical integers. len < 2^16 here, so for count < 2^31 the
         64-bit product is exact (< 2^47); for count >= 2^31 and len >= 1 the true product exceeds every int
         MaxStringLength, so no allocation may happen at all (G_count_ok, asserted in the allocation stub).
         The exact size (n == len*count) is asserted for the small operands only: equating the driver's 64-bit
         multiplier with a second one in the specification does not discharge on any back end for full widths. */
      G_count_ok = count < ((int64_t)1 << 31) || len == 0;
      if (small) {
        G_have_want = 1; G_want = (uint64_t)len * (uint64_t)count;
        if (G_want > (size_t)maxlen) G_want = (size_t)-1;   /* nothing may be allocated at all */
      }
    }
    V_COVER(count < 0);
    f_repeat_string();
    V_ASSERT(sp == &stk[0] && sp->type == T_STRING, "repeat_string leaves one string on the stack");
    if (count <= 0) V_ASSERT(sp->u.string[0] == 0 && G_allocs == 0, "a count of zero or less gives the empty string");
    if (count > 1 && G_allocs) {
      V_ASSERT((uint64_t)count <= (uint64_t)maxlen, "the copy loop runs at most MaxStringLength times");
      V_ASSERT(v_len(sp->u.string) == (int)G_want, "the result has the announced length");
      V_ASSERT(len == 0 || sp->u.string[G_want - 1] == A.s[len - 1], "the result ends with the last character of the operand");
    }
    if (count > 1 && len == 0) V_ASSERT(sp->u.string[0] == 0, "repeating the empty string gives the empty string");
    V_COVER(count > 1 && G_allocs == 1 && len == 2);
  } else {
    V_DECL(int, la); V_DECL(int, lb); V_DECL(int, suba); V_DECL(int, refa); V_DECL(int, subb);
    V_ASSUME(0 <= la && la <= 3 && 0 <= lb && lb <= 3 && 1 <= refa && refa <= 2);
    V_ASSUME(suba == STRING_MALLOC || suba == STRING_SHARED || suba == STRING_CONSTANT);
    V_ASSUME(subb == STRING_MALLOC || subb == STRING_SHARED || subb == STRING_CONSTANT);
    V_FILL(cstr_t, A, a); V_FILL(cstr_t, B, b);
    mk(&A, &stk[0], la, suba, refa); mk(&B, &stk[1], lb, subb, 1);
    G_have_want = 1; G_want = (size_t)(la + lb);
    if (G_want > (size_t)maxlen) G_want = (size_t)-1;
    if (which == 1) { w_extend(&stk[0], B.s); }
    else if (which == 2) { sp = &stk[1]; G_want = G_want == (size_t)-1 ? G_want : (size_t)(la + lb); w_add_left(A.s); V_ASSERT(sp == &stk[0], "one operand is consumed"); }
    else { w_join(&stk[0], &stk[1]); }
    /* reaching here: no error */
    V_ASSERT(la + lb <= maxlen, "a concatenation longer than MaxStringLength raises an error instead of building the value");
    V_ASSERT(stk[0].type == T_STRING && v_len(stk[0].u.string) == la + lb, "the concatenation has the summed length");
    V_COVER(la + lb == maxlen && la > 0 && lb > 0);
  }
}
