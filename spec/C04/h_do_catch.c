/*@harness
{"tier":"quick","mode":"width","tus":["src/error_context.c","src/frame.c"],"include_tu":["src/error_context.c"],"dfcc":false,
 "stub_out":["error_handler","error","bad_arg","bad_argument"],
 "functions":["do_catch","pop_context","save_context","restore_context","push_control_stack","pop_control_stack","clear_error_state","set_error_state","get_error_state"],
 "flags":["--bounds-check","--pointer-check"],"unwind":6,"timeout":600,
 "expect":["h_do_catch.assertion","error.assertion","do_catch.pointer_dereference"],
 "native":null,
 "assumptions":["setjmp is modelled by a stub that returns 0 (the protected evaluation starts) or 1 (an error was thrown during it; the error-state flags at that moment are arbitrary)",
                "eval_instruction, pop_n_elems, assign_svalue are stubs; error() records the call and ends the path"],
 "notes":"C04 'exceeding a limit raises an error that LPC catch cannot swallow': when the protected evaluation ended with a limit error (ES_MAX_EVAL_COST / ES_STACK_FULL), do_catch raises again instead of returning, and the limit mark is still set when it does, so that an enclosing catch re-raises as well"}
@*/
#ifdef HAVE_CONFIG_H
#include <config.h>
#endif
#ifndef V_NATIVE
#include "error_context.c"     /* scratch copy: current_error_context is file-static */
#endif
#include "std.h"
#include "lpc/object.h"
#include "lpc/program.h"
#include "interpret.h"
#include "error_context.h"
#include "rc/rc.h"
#include "src/main.h"
#include "vharness.h"
main_options_t *g_main_options; static main_options_t G_opts;
int config_int[NUM_CONFIG_INTS];
svalue_t *sp; object_t *command_giver, *current_object, *previous_ob; program_t *current_prog; int caller_type; char *pc; svalue_t *fp;
int function_index_offset, variable_index_offset; svalue_t catch_value, const1, const0;
static int G_thrown, G_limit_bits, G_errors, G_error_with_mark, G_evals;
void pop_n_elems(size_t n) { V_ASSERT(n <= 64, "restore never pops a negative number of values"); sp -= n; }
void assign_svalue(svalue_t *to, svalue_t *from) { *to = *from; }
void eval_instruction(const char *p) { if (G_evals < 10) G_evals++; }
void error_handler(const char *m) { V_STOP(); }
void bad_arg(int a, int b) { V_STOP(); }
void bad_argument(svalue_t *v, int a, int b, int c) { V_STOP(); }
int debug_message_with_src(const char *a, const char *b, const char *c, int d, const char *e, ...) { return 0; }
void error(const char *f, ...) {
  if (G_errors < 10) G_errors++;
  V_ASSERT(1, "error reached");
  if (G_thrown && G_limit_bits)
    V_ASSERT(get_error_state(ES_MAX_EVAL_COST | ES_STACK_FULL) != 0, "when do_catch re-raises a limit error the limit mark is still set (an enclosing catch must re-raise it too)");
  V_STOP();
}
/* setjmp model: 0 = protected evaluation starts; 1 = an error was thrown during it, with arbitrary error-state flags */
static int v_setjmp(void) {
  V_DECL(int, thrown); V_DECL(int, bits);
  G_thrown = thrown != 0;
  if (G_thrown) {
    clear_error_state();
    if (bits & 1) set_error_state(ES_MAX_EVAL_COST);
    if (bits & 2) set_error_state(ES_STACK_FULL);
    G_limit_bits = bits & 3;
    sp += 2;                         /* the failed evaluation left values on the stack */
  }
  return G_thrown;
}
int _setjmp(struct __jmp_buf_tag *e) { return v_setjmp(); }
int __sigsetjmp(struct __jmp_buf_tag *e, int m) { return v_setjmp(); }
void do_catch(const char *p, unsigned short off);

void h_do_catch(void) {
  static control_stack_t cs[16]; static svalue_t vs[64]; static object_t ob; static program_t prog; static char code[2];
  V_FILL(main_options_t, G_opts, opts); g_main_options = &G_opts;
  control_stack = cs; config_int[__MAX_CALL_DEPTH__ - BASE_CONFIG_INT] = 16;
  V_DECL(int, d0); V_ASSUME(0 <= d0 && d0 <= 10);
  csp = &cs[d0]; sp = &vs[8]; current_object = &ob; current_prog = &prog; clear_error_state();
  current_error_context = 0;
  V_COVER(d0 == 3);
  do_catch(code, 0);
  /* reaching here: do_catch returned to the interpreter, i.e. the catch expression yields a value to LPC */
  V_ASSERT(!(G_thrown && G_limit_bits), "a limit error (evaluation cost / call depth / stack) is never turned into a catch result: do_catch raises again");
  V_ASSERT(current_error_context == 0, "the catch's error context is popped");
  V_COVER(G_thrown && !G_limit_bits);
  V_COVER(!G_thrown && G_evals == 1);
}
