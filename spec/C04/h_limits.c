/*@harness
{"tier":"quick","mode":"width","tus":["src/frame.c","lib/lpc/buffer.c"],"dfcc":false,
 "functions":["push_control_stack","allocate_buffer"],
 "flags":["--bounds-check","--pointer-check","--no-malloc-may-fail"],"unwind":3,"timeout":600,
 "expect":["h_limits.assertion","push_control_stack.pointer_dereference","error.assertion"],
 "native":null,
 "assumptions":["error() is the LPC error: it records the call and ends the path (that catch cannot swallow a limit error is do_catch's job, not under contract here)",
                "calloc() does not fail (the unchecked DCALLOC result on out-of-memory is outside C04)","configured limits are symbolic: MaxCallDepth in 1..64 (the harness control stack has 64 frames), MaxBufferSize any non-negative int"],
 "notes":"per-step limit facts: the control stack pointer never passes control_stack[MaxCallDepth-1] and the overflow raises the un-catchable stack-full state; a buffer is never larger than MaxBufferSize"}
@*/
#ifdef HAVE_CONFIG_H
#include <config.h>
#endif
#include "std.h"
#include "lpc/object.h"
#include "lpc/program.h"
#include "lpc/buffer.h"
#include "interpret.h"
#include "rc/rc.h"
#include "src/main.h"
#include "vharness.h"
main_options_t *g_main_options; static main_options_t G_opts;
int config_int[NUM_CONFIG_INTS];
object_t *current_object, *previous_ob; program_t *current_prog; int caller_type; char *pc; svalue_t *fp; int function_index_offset, variable_index_offset;
static int G_errors, G_stack_full_at_error; static control_stack_t *G_csp_at_error;
void error(const char *fmt, ...) {
  if (G_errors < 10) G_errors++;
  G_stack_full_at_error = get_error_state(ES_STACK_FULL); G_csp_at_error = csp;
  V_ASSERT(1, "error reached");
  V_COVER(G_stack_full_at_error != 0);
  V_STOP();
}
char *xalloc(size_t n) { char *r = malloc(n); V_ASSUME(r != 0); return r; }
void *xcalloc(size_t a, size_t b) { void *r = calloc(a, b); V_ASSUME(r != 0); return r; }
int debug_message_with_src(const char *a, const char *b, const char *c, int d, const char *e, ...) { return 0; }
buffer_t *null_buffer(void);

void h_limits(void) {
  static control_stack_t cs[64]; static object_t ob; static program_t prog;
  V_FILL(main_options_t, G_opts, opts); g_main_options = &G_opts;
  V_DECL(int, which);
  if (which) {
    V_DECL(int, maxd); V_DECL(int, d0); V_DECL(int, kind);
    V_ASSUME(1 <= maxd && maxd <= 64 && -1 <= d0 && d0 <= maxd - 1);
    config_int[__MAX_CALL_DEPTH__ - BASE_CONFIG_INT] = maxd;
    control_stack = cs; csp = cs + d0; current_object = &ob; current_prog = &prog; clear_error_state();
    push_control_stack(kind);
    /* reaching here means no error was raised */
    V_ASSERT(d0 < maxd - 1, "at the call-depth limit push_control_stack raises the error instead of returning");
    V_ASSERT(csp == cs + d0 + 1 && csp <= &cs[maxd - 1], "the control stack pointer advances by one frame and never passes control_stack[MaxCallDepth-1]");
    V_ASSERT(csp->ob == &ob && csp->prog == &prog && csp->framekind == kind, "the caller's registers are saved in the new frame");
    V_COVER(d0 == maxd - 2);
  } else {
    V_DECL(int, maxb); V_DECL(size_t, want);
    V_ASSUME(0 <= maxb && want <= 100000);
    config_int[__MAX_BUFFER_SIZE__ - BASE_CONFIG_INT] = maxb;
    buffer_t *b = allocate_buffer(want);
    V_ASSERT(want <= (size_t)maxb, "a buffer larger than MaxBufferSize is refused with an error");
    V_ASSERT(b != 0 && b->size <= (unsigned)maxb, "no buffer value exceeds the configured maximum size");
    V_COVER(want == (size_t)maxb && want > 0);
  }
}
