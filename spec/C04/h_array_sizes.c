/*@harness
{"tier":"quick","mode":"width","tus":["lib/lpc/array.c"],"dfcc":false,
 "functions":["allocate_array","allocate_empty_array","add_array"],
 "flags":["--bounds-check","--pointer-check","--no-malloc-may-fail"],"unwind":4,"timeout":600,
 "expect":["h_array_sizes.assertion","v_block.assertion"],
 "ignore":[{"class":"overflow","text_contains":"num_arrays","why":"ARRAY_STATS counters"},{"class":"overflow","text_contains":"total_array_size","why":"ARRAY_STATS counters"},
           {"class":"array_bounds","text_contains":"->item[","why":"struct-hack member item[1]; paths that touch elements end at the allocation stub unless the array has at most 2 elements"}],
 "native":null,
 "assumptions":["xalloc/realloc are allocation stubs carrying the obligation 'at most MaxArraySize elements are requested'; beyond 2 elements the path ends at the stub (the element copies are not followed)",
                "error() ends the path","MaxArraySize is a non-negative int (lib/rc/rc.cpp); operand sizes are any unsigned short, reference counts any value >= 1"],
 "notes":"C04 'no LPC value ever exceeds the configured maximum array size' for the three array constructors every array-producing operator and efun goes through: allocate_array, allocate_empty_array and add_array (the + and += operators)"}
@*/
#ifdef HAVE_CONFIG_H
#include <config.h>
#endif
#include "src/std.h"
#include "lpc/types.h"
#include "lpc/array.h"
#include "rc.h"
#include "src/main.h"
#include "vharness.h"
main_options_t *g_main_options; static main_options_t G_opts;
int config_int[NUM_CONFIG_INTS];
svalue_t const0, const0u;
static int G_max, G_errors, G_allocs;
static size_t G_last_elems; static int G_stop_all;
void error(const char *fmt, ...) { if (G_errors < 10) G_errors++; V_ASSERT(1, "error reached"); V_STOP(); }
void fatal(char *fmt, ...) { V_STOP(); }
int debug_message_with_src(const char *a, const char *b, const char *c, int d, const char *e, ...) { return 0; }
void assign_svalue_no_free(svalue_t *to, svalue_t *from) { *to = *from; }
static void *v_block(size_t bytes, const char *who) {
  if (G_allocs < 10) G_allocs++;
  /* bytes = sizeof(array_t) + sizeof(svalue_t) * (n - 1) for an n-element array */
  V_ASSERT(bytes >= sizeof(array_t), "an array block is at least one header");
  size_t elems = (bytes - sizeof(array_t)) / sizeof(svalue_t) + 1;
  G_last_elems = elems;
  V_ASSERT(elems <= (size_t)G_max, "no array block is requested for more than MaxArraySize elements");
  if (elems > 2 || G_stop_all) V_STOP();
  void *r = elems == 1 ? malloc(sizeof(array_t)) : malloc(sizeof(array_t) + sizeof(svalue_t));
  V_ASSUME(r != 0);
  return r;
}
char *xalloc(size_t n) { return (char *)v_block(n, "xalloc"); }
void *realloc(void *p, size_t n) { return v_block(n, "realloc"); }
array_t *allocate_array(size_t n); array_t *allocate_empty_array(size_t n); array_t *add_array(array_t *p, array_t *r);

void h_array_sizes(void) {
  V_FILL(main_options_t, G_opts, opts); g_main_options = &G_opts;
  V_DECL(int, maxsz); V_ASSUME(maxsz >= 0);
  G_max = maxsz; config_int[__MAX_ARRAY_SIZE__ - BASE_CONFIG_INT] = maxsz;
  V_DECL(int, which);
  if (which == 0 || which == 1) {
    V_DECL(size_t, want);
    array_t *a = which == 0 ? allocate_array(want) : allocate_empty_array(want);
    V_ASSERT(want <= (size_t)maxsz, "an array larger than MaxArraySize is refused with an error");
    V_ASSERT(a != 0 && (want == 0 ? a == &the_null_array : (a->ref == 1 && a->size == (unsigned short)want)), "the new array has the requested size (the empty array is the shared null array)");
    V_COVER(want == (size_t)maxsz && want == 2);
  } else {
    /* a + b: headers only (any sizes); the element copies are followed for results of at most 2 elements */
    static array_t P, R;
    V_DECL(v_ushort, ps); V_DECL(v_ushort, rs); V_DECL(v_ushort, pref); V_DECL(v_ushort, rref); V_DECL(int, same);
    V_ASSUME(pref >= 1 && rref >= 1);
    P.size = ps; P.ref = pref; R.size = rs; R.ref = rref;
    V_ASSUME(ps != 0 && rs != 0);       /* the empty-operand shortcuts return an operand, they build nothing */
    G_stop_all = 1;                     /* the harness operands are bare headers: every path ends at its first allocation */
    V_COVER((int)ps + rs == maxsz);
    array_t *d = add_array(&P, same ? &P : &R);
    (void)d;
    V_ASSERT(0, "harness-sanity: unexpected call: add_array of more than 2 elements returned although every allocation ends the path");
  }
}
