/*@harness
{"tier":"thorough","mode":"bounded(2 heart-beat objects (a third object may be enabled during the round), one round (tick), up to 1 set_heart_beat operation on arbitrary objects inside every heart_beat call)","tus":["src/backend.c"],"include_tu":true,"dfcc":false,
 "functions":["call_heart_beat","set_heart_beat"],
 "stub_out":["look_for_objects_to_swap"],
 "flags":["--bounds-check","--pointer-check"],"unwind":9,"timeout":900,
 "expect":["h_heart_beat_round.assertion","call_function.assertion","call_heart_beat.pointer_dereference","set_heart_beat.pointer_dereference"],
 "native":{"rename":["time","memmove"]},
 "assumptions":["call_function() is the LPC heart_beat(): modelled as up to two set_heart_beat(any object, 0/1/n) calls (enable, disable, re-time, also on itself) - destruct_object's effect on the list is set_heart_beat(ob,0)",
                "the timer thread setting heart_beat_flag concurrently is modelled by a nondeterministic flag set inside a call (truncated round)",
                "the heart-beat array is pre-allocated with room for 8 entries (RESIZE path not exercised)"],
 "notes":"round contract of the real call_heart_beat/set_heart_beat pair under re-entrant list surgery"}
@*/
#ifndef V_NATIVE
#include "backend.c"          /* scratch copy of the real TU: the heart-beat list is file-static */
#endif
#include "vharness.h"
#define NOBJ 2
/* separate objects (see C12): stores through a pointer phi over array elements are byte updates of the whole array */
static object_t O0, O1, O2; static program_t PR0, PR1, PR2;
static object_t *const OP[3] = {&O0, &O1, &O2}; static program_t *const PP[3] = {&PR0, &PR1, &PR2};
static int G_calls[NOBJ];            /* heart_beat() invocations this round */
static int G_disabled_at[NOBJ];      /* object was switched off (or destructed) during the round */
static int G_enabled_whole[NOBJ];    /* still never touched by any set_heart_beat this round */
static int G_truncated;              /* the timer fired again during the round */
static int G_due[NOBJ];              /* ticks reach 0 in this round (fixed at round start) */
main_options_t *g_main_options; static main_options_t G_opts;
int config_int[NUM_CONFIG_INTS];
time_t time(time_t *t) { if (t) *t = 1000; return 1000; }
void call_out(void) { }
static void look_for_objects_to_swap(void) { }
int debug_message_with_src(const char *a, const char *b, const char *c, int d, const char *e, ...) { return 0; }
void *memmove(void *d, const void *s, size_t n) {          /* element-wise copy of whole heart_beat_t records (overlapping, downwards) */
  V_ASSERT(n % sizeof(heart_beat_t) == 0 && n <= 8 * sizeof(heart_beat_t), "memmove moves whole list entries inside the array");
  heart_beat_t *dd = d; const heart_beat_t *ss = s;
  for (size_t i = 0; i < n / sizeof(heart_beat_t) && i < 8; i++) dd[i] = ss[i];
  return d;
}
static int pidx(program_t *p) { return p == &PR0 ? 0 : (p == &PR1 ? 1 : (p == &PR2 ? 2 : -1)); }
static void one_op(void) {
  V_DECL(int, op_obj); V_DECL(int, op_to);
  V_ASSUME(0 <= op_obj && op_obj < NOBJ && op_to >= -1 && op_to <= 3);
  G_enabled_whole[op_obj] = 0;
  if (op_to == 0) G_disabled_at[op_obj] = 1; else G_disabled_at[op_obj] = 0;
  set_heart_beat(op_obj == 0 ? &O0 : (op_obj == 1 ? &O1 : &O2), op_to);
}
void call_function(program_t *progp, int runtime_index, int num_args, svalue_t *ret) {
  int k = pidx(progp);
  V_ASSERT(0 <= k && k < NOBJ && current_heart_beat == OP[k], "heart_beat() is called on the object whose turn it is");
  V_ASSERT(OP[k]->flags & O_HEART_BEAT, "heart_beat() is only called on an object whose heart beat is enabled");
  V_ASSERT(!G_disabled_at[k], "an object that switched its heart beat off (or was destructed) is not called again in this round");
  if (G_calls[k] < 10) G_calls[k]++;
  V_DECL(int, nops); V_ASSUME(0 <= nops && nops <= 1);
  if (nops >= 1) one_op();
  if (nops >= 2) one_op();
  V_DECL(int, timer_fires); if (timer_fires) { heart_beat_flag = 1; G_truncated = 1; }
}

void h_heart_beat_round(void) {
  static heart_beat_t arr[8];
  V_FILL(main_options_t, G_opts, opts); g_main_options = &G_opts;
  G_opts.timer_flags = TIMER_FLAG_HEARTBEAT;
  heart_beats = arr; max_heart_beats = 8;
  V_DECL(int, n0); V_ASSUME(0 <= n0 && n0 <= NOBJ);
  num_hb_objs = n0; num_hb_to_do = 0; heart_beat_index = 0; heart_beat_flag = 0;
  for (int k = 0; k < NOBJ; k++) {
    OP[k]->prog = PP[k]; PP[k]->heart_beat = 0; OP[k]->flags = 0; G_enabled_whole[k] = 0;
  }
  /* the list holds the first n0 objects in a nondeterministic order without duplicates (here: a rotation) */
  V_DECL(int, rot); V_ASSUME(0 <= rot && rot < NOBJ);
  for (int i = 0; i < NOBJ; i++) if (i < n0) {
    int k = (i + rot) % NOBJ; V_ASSUME(k < n0 || 1);
    V_DECL(short, ticks); V_DECL(short, period); V_ASSUME(ticks >= 1 && ticks <= 3 && period >= 1 && period <= 3);
    k = (i + rot) % n0;
    arr[i].ob = OP[k]; arr[i].heart_beat_ticks = ticks; arr[i].time_to_heart_beat = period;
    OP[k]->flags |= O_HEART_BEAT; G_enabled_whole[k] = 1; G_due[k] = (ticks == 1);
  }
  call_heart_beat();
  for (int k = 0; k < NOBJ; k++) {
    V_ASSERT(G_calls[k] <= 1, "heart_beat runs at most once per tick per object");
    V_ASSERT(!(G_enabled_whole[k] && G_due[k] && !G_truncated) || G_calls[k] == 1, "an object enabled for the whole round whose interval elapsed is called exactly once in a round that completes");
    V_ASSERT(!(G_enabled_whole[k] && !G_due[k]) || G_calls[k] == 0, "an object whose interval has not elapsed is not called");
  }
  V_ASSERT(heart_beat_index == 0 && num_hb_to_do == 0 && num_hb_objs >= 0 && num_hb_objs <= 8, "the round bookkeeping is reset and the list length stays in range");
  /* list/flag consistency after any surgery */
  V_DECL(int, g); V_ASSUME(0 <= g && g < NOBJ);
  int cnt = 0; for (int i = 0; i < 8; i++) if (i < num_hb_objs && arr[i].ob == OP[g]) cnt++;
  V_ASSERT(cnt == ((OP[g]->flags & O_HEART_BEAT) ? 1 : 0), "an object is in the list exactly once iff its heart-beat flag is set");
  V_COVER(G_calls[0] == 1 && G_calls[1] == 1); V_COVER(G_truncated); V_COVER(n0 == 2 && num_hb_objs == 1);
}
