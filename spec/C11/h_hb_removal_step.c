/*@harness
{"tier":"quick","mode":"bounded(heart-beat list of at most 4 objects; round position, pending count, victim and list order symbolic)","tus":["src/backend.c"],"include_tu":true,"dfcc":false,
 "functions":["set_heart_beat"],
 "stub_out":["look_for_objects_to_swap"],
 "flags":["--bounds-check","--pointer-check"],"unwind":6,"timeout":600,
 "expect":["h_hb_removal_step.assertion","set_heart_beat.pointer_dereference"],
 "native":{"rename":["memmove"]},
 "assumptions":["memmove is modelled element-wise on whole list entries","the list holds distinct objects (guaranteed by the O_HEART_BEAT flag test on insertion)"],
 "notes":"single-step contract of list surgery during a round: with the round invariant J (entries at positions <= heart_beat_index are done, positions in (heart_beat_index, num_hb_to_do) are still to do, positions >= num_hb_to_do were added this round) one set_heart_beat(victim, 0) or set_heart_beat(new, n) keeps J and changes the three regions only by removing the victim / appending the new object.  By induction over the operations performed inside heart_beat() calls, every object pending at the start of a tick and never removed is visited exactly once, and nothing is visited twice."}
@*/
#ifndef V_NATIVE
#include "backend.c"
#endif
#include "vharness.h"
static object_t O0, O1, O2, O3, ONEW; static object_t *const OP[5] = {&O0, &O1, &O2, &O3, &ONEW};
main_options_t *g_main_options; static main_options_t G_opts; int config_int[NUM_CONFIG_INTS];
static void look_for_objects_to_swap(void) { }
void call_out(void) { }
int debug_message_with_src(const char *a, const char *b, const char *c, int d, const char *e, ...) { return 0; }
void *memmove(void *d, const void *s, size_t n) {
  V_ASSERT(n % sizeof(heart_beat_t) == 0 && n <= 8 * sizeof(heart_beat_t), "memmove moves whole list entries inside the array");
  heart_beat_t *dd = d; const heart_beat_t *ss = s;
  for (size_t i = 0; i < n / sizeof(heart_beat_t) && i < 4; i++) dd[i] = ss[i];
  return d;
}
/* region of object k in the list: 0 = done (pos <= index), 1 = to do (index < pos < to_do), 2 = added this round (pos >= to_do), -1 = absent */
static int region_of(heart_beat_t *arr, int n, int index, int todo, object_t *ob) {
  for (int i = 0; i < 5; i++) if (i < n && arr[i].ob == ob) return i <= index ? 0 : (i < todo ? 1 : 2);
  return -1;
}
void h_hb_removal_step(void) {
  static heart_beat_t arr[8];
  V_FILL(main_options_t, G_opts, opts); g_main_options = &G_opts;
  V_DECL(int, n); V_DECL(int, index); V_DECL(int, todo); V_DECL(int, in_round); V_DECL(int, rot); V_DECL(int, victim); V_DECL(int, op_new); V_DECL(int, to);
  V_ASSUME(1 <= n && n <= 4 && 0 <= rot && rot < 4 && 0 <= victim && victim < 4);
  if (in_round) V_ASSUME(0 <= index && index < todo && todo <= n);      /* J: inside heart_beat() of the entry at position index */
  else V_ASSUME(index == 0 && todo == 0);                                 /* between rounds */
  heart_beats = arr; max_heart_beats = 8; num_hb_objs = n; heart_beat_index = index; num_hb_to_do = todo;
  for (int k = 0; k < 5; k++) OP[k]->flags = 0;
  for (int i = 0; i < 4; i++) if (i < n) { int k = (i + rot) % n; arr[i].ob = OP[k]; arr[i].heart_beat_ticks = 1; arr[i].time_to_heart_beat = 1; OP[k]->flags |= O_HEART_BEAT; }
  int reg0[5]; for (int k = 0; k < 5; k++) reg0[k] = region_of(arr, n, index, todo, OP[k]);
  object_t *current = in_round ? arr[index].ob : 0;
  int r;
  if (op_new) { V_ASSUME(to >= 1 && to <= 3); r = set_heart_beat(&ONEW, to); }
  else { V_ASSUME(victim < n); r = set_heart_beat(OP[victim], 0); }
  int n2 = num_hb_objs, i2 = heart_beat_index, t2 = num_hb_to_do;
  V_ASSERT(0 <= n2 && n2 <= 5 && (in_round ? (-1 <= i2 && i2 < t2 + 1 && t2 <= n2) : (t2 == 0)), "the round bookkeeping stays well formed: -1 <= heart_beat_index, index + 1 <= num_hb_to_do + 1, num_hb_to_do <= num_hb_objs");
  for (int k = 0; k < 5; k++) {
    int reg1 = region_of(arr, n2, i2, t2, OP[k]);
    if (!op_new && k == victim) V_ASSERT(reg1 == -1 && !(OP[k]->flags & O_HEART_BEAT) && r == 1, "the object switched off leaves the list and loses its flag");
    else if (op_new && k == 4) V_ASSERT(reg1 == (in_round ? 2 : 2) && (ONEW.flags & O_HEART_BEAT), "an object enabled now is appended behind the entries of the current round");
    else if (in_round) V_ASSERT(reg1 == reg0[k], "every other object stays in its part of the round: done stays done, still-to-do stays still-to-do (so it is neither skipped nor visited twice)");
    else V_ASSERT((reg1 == -1) == (reg0[k] == -1), "between rounds every other object stays in the list");
  }
  if (in_round && current && !( !op_new && OP[victim] == current)) V_ASSERT(i2 >= 0 && arr[i2].ob == current, "the cursor still points at the object whose heart_beat is running");
  if (in_round && !op_new && OP[victim] == current) V_ASSERT(i2 == index - 1, "removing the running object steps the cursor back so that the next entry is not skipped");
  V_COVER(in_round && !op_new && reg0[victim] == 1); V_COVER(in_round && !op_new && reg0[victim] == 0 && index > 0); V_COVER(in_round && op_new); V_COVER(!in_round && !op_new && n == 4);
}
