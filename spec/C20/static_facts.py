"""C20 supporting static fact: the only functions that assign object_t.uid / object_t.euid."""
from vlib import writeset

ALLOWED = {
    'f_seteuid': 'euid: to 0 or after master approval (contract h_f_seteuid)',
    'f_export_uid': 'uid: only with caller euid != 0 and target euid == 0 (contract h_f_export_uid)',
    'give_uid_to_object': 'uid/euid at creation per creator_file policy (contract h_give_uid_to_object)',
    'set_master': 'master object gets the root uid from get_root_uid',
    'reload_object': 'euid reset to 0 when an object is reloaded',
}


def run(core):
    writers, failed = writeset.scan(core, ['uid', 'euid'])
    bad = {('%s:%s' % k): v for k, v in writers.items() if k[1] not in ALLOWED}
    # tolerate platform variants that do not build in this configuration; they must not be the anchors
    must = ['lib/efuns/uids.c', 'src/simulate.c', 'lib/lpc/object.c']
    fact = {'name': 'uid_euid_writers', 'writers': {('%s:%s' % k): v for k, v in writers.items()}, 'allowed': ALLOWED,
            'not_compiled': failed,
            'note': 'mechanical write-set analysis on goto programs of every C TU under src/ and lib/; memcpy over an object_t would escape it'}
    if any(m in failed for m in must):
        fact['status'] = 'undecided'; fact['detail'] = 'anchor TU did not compile'
    elif bad:
        fact['status'] = 'violated'; fact['confirmed'] = False
        fact['detail'] = 'unexpected writers of uid/euid: %s' % bad
    else:
        fact['status'] = 'holds'
    return [fact]
