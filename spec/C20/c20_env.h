/* C20: common environment: value stack, trusted stubs of the interpreter primitives and of the master apply */
#ifndef C20_ENV_H
#define C20_ENV_H
#ifdef HAVE_CONFIG_H
#include <config.h>
#endif
#include "src/std.h"
#include "lpc/types.h"
#include "lpc/object.h"
#include "src/interpret.h"
#include "src/apply.h"
#include "src/simulate.h"
#include "src/error_context.h"
#include "efuns/uids.h"
#include "applies.h"
#include "vharness.h"

static svalue_t G_stack[8];
svalue_t *sp;
object_t *current_object;
svalue_t const0, const1;
object_t *master_ob;

/* ghost record of what happened */
static int G_error;               /* error()/bad_arg() raised: the efun does not return */
static int G_master_calls;        /* number of master applies */
static const char *G_master_fun;  /* apply name of the last one */
static int G_master_is_seteuid;
static int G_master_args_ok;      /* it was given (calling object, requested name) / (file name) as documented */
static svalue_t *G_master_ret;    /* what the master answered */
static userid_t G_uid_new;        /* the userid add_uid() hands out */
static const char *G_add_uid_name;
static int G_add_uid_calls;
static char *G_req_name;          /* string argument of seteuid */

#ifndef C20_ERROR_COVER
#define C20_ERROR_COVER
#endif
void error(const char *fmt, ...) { G_error = 1; C20_ERROR_COVER V_STOP(); }
void bad_arg(int a, int b) { G_error = 1; V_STOP(); }
void push_object(object_t *ob) { sp++; sp->type = T_OBJECT; sp->u.ob = ob; }
void assign_svalue_no_free(svalue_t *to, svalue_t *from) { *to = *from; }
void free_string_svalue(svalue_t *v) { V_ASSERT(v->type == T_STRING, "free_string_svalue on a string"); }
void free_object(object_t *ob, const char *why) { }
userid_t *c20_add_uid(const char *name);
userid_t *add_uid(const char *name)
#ifdef C20_OWN_ADD_UID
;
#else
{ G_add_uid_name = name; if (G_add_uid_calls < 100) G_add_uid_calls++; return &G_uid_new; }
#endif
int debug_message_with_src(const char *a, const char *b, const char *c, int d, const char *e, ...) { return 0; }

static svalue_t G_ret_sv;
#endif
