/*@harness
{"tier":"quick","mode":"width","tus":["src/simulate.c"],"dfcc":false,"functions":["clone_object","load_object"],
 "stub_out":["find_or_load_object","get_machine_state","simulate.c:load_virtual_object","destruct_object"],
 "flags":["--bounds-check","--pointer-check"],"unwind":70,"timeout":600,
 "expect":["find_or_load_object.assertion","stat.assertion"],
 "native":{"rename":["stat"]},
 "assumptions":["everything behind the euid gate is a sink stub that asserts it is unreachable; error() ends the path",
                "loops of load_object/clone_object are behind the gate and are cut by --unwind 1 (unreachable under the harness assumption)"],
 "notes":"plain CBMC harness (no dfcc): precondition 'caller has euid 0 and is not the master' assumed; obligation: no creation sink is reached"}
@*/
static int G_which;
#define C20_ERROR_COVER V_COVER(G_which && v_streq(fmt, "*Attempt to create object without effective UID.")); V_COVER(!G_which && v_streq(fmt, "*Can't load objects when no effective user."));
#include "c20_env.h"
#include "src/main.h"
#include "rc.h"
#include <sys/stat.h>
main_options_t *g_main_options; static main_options_t G_opts;
int config_int[NUM_CONFIG_INTS];
static int G_state;
userid_t *backbone_uid, *root_uid;

int get_machine_state(void) { return G_state; }
int strip_name(const char *src, char *dest, size_t n) { V_DECL(int, strip_ret); if (n) dest[0] = 0; return strip_ret; }
/* creation sinks */
object_t *find_or_load_object(const char *s) { V_ASSERT(0, "clone_object reaches object lookup/creation although the caller has euid 0 and is not the master"); return 0; }
int stat(const char *p, struct stat *st) { V_ASSERT(0, "load_object touches the file system although the caller has euid 0 and is not the master"); return -1; }
svalue_t *V_STATIC(simulate_c, load_virtual_object)(const char *n) { V_ASSERT(0, "load_object asks for a virtual object although the caller has euid 0 and is not the master"); return 0; }
void destruct_object(object_t *ob) { V_ASSERT(0, "destruct reached behind the euid gate"); }

void h_creation_gate(void) {
  static object_t me, mast; static char fname[] = "obj/thing";
  V_FILL(object_t, me, me); V_FILL(main_options_t, G_opts, opts);
  g_main_options = &G_opts; current_object = &me; master_ob = &mast;
  me.euid = 0;                                  /* no effective uid, and not the master */
  V_DECL(int, which); V_DECL(int, st); V_DECL(int, chain);
  V_ASSUME(chain >= 1); config_int[__INHERIT_CHAIN_SIZE__ - BASE_CONFIG_INT] = chain;
  G_which = which;
  if (which) { G_state = st; clone_object(fname, 0); }
  else { V_ASSUME(st >= MS_MUDLIB_LIMBO); G_state = st; load_object(fname, 0); }
  V_ASSERT(0, "clone_object/load_object returned normally for a caller with euid 0 that is not the master");
}
