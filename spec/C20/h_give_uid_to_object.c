/*@harness
{"tier":"quick","mode":"width","tus":["src/simulate.c"],"enforce":"simulate.c:give_uid_to_object","stub_out":["destruct_object","get_machine_state"],
 "flags":["--bounds-check","--pointer-check"],"timeout":600,
 "expect":["give_uid_to_object.postcondition","give_uid_to_object.assigns","apply_master_ob.assertion"],
 "native":{"rename":["strcmp"]},
 "assumptions":["strcmp stub: answers the comparison of (loader uid name, creator) and (backbone uid name, creator) nondeterministically but consistently",
                "apply_master_ob stub: pops the file name, answers -1 / NULL / number / string",
                "add_uid stub: one userid per distinct name pointer"]}
@*/
#define C20_OWN_ADD_UID
#include "c20_env.h"
#include "src/main.h"
userid_t *backbone_uid, *root_uid;
main_options_t *g_main_options; static main_options_t G_opts;
static int G_state; static object_t *G_ob; static int G_destructed;
static char G_noname_lit_seen; static userid_t G_uid_noname;
static char G_creator[] = "creator"; static char G_slashname[] = "/x";
static int G_eq_loader, G_eq_backbone;      /* outcome of the two name comparisons */
static int G_cmp_other;                    /* an unexpected comparison happened */
static int G_add_noname, G_add_creator;

int get_machine_state(void) { return G_state; }
char *add_slash(const char *s) { return G_slashname; }
void push_malloced_string(char *s) { sp++; sp->type = T_STRING; sp->u.string = s; }
void destruct_object(object_t *ob) { V_ASSERT(ob == G_ob, "only the new object is destructed"); G_destructed = 1; }
int strcmp(const char *a, const char *b) {
  if (current_object && current_object->uid && a == current_object->uid->name && (b == G_creator || G_master_ret == 0 || G_master_ret->type != T_STRING)) return G_eq_loader ? 0 : 1;
  if (backbone_uid && a == backbone_uid->name) return G_eq_backbone ? 0 : 1;
  G_cmp_other = 1; return 1;
}
userid_t *add_uid(const char *name) {
  if (G_add_uid_calls < 100) G_add_uid_calls++;
  G_add_uid_name = name;
  if (name == G_creator) { G_add_creator = 1; return &G_uid_new; }
  G_add_noname = 1; return &G_uid_noname;     /* the literal "NONAME" */
}
svalue_t *apply_master_ob(const char *fun, int num_arg) {
  G_master_fun = fun; if (G_master_calls < 100) G_master_calls++;
  V_ASSERT(v_streq(fun, APPLY_CREATOR_FILE) && num_arg == 1, "the master is asked creator_file with one argument");
  V_ASSERT(sp == &G_stack[1] && sp->type == T_STRING && sp->u.string == G_slashname, "creator_file receives the object's file name");
  sp -= num_arg;
  V_DECL(int, master_kind); V_DECL(int64_t, master_num);
  if (master_kind == 0) G_master_ret = (svalue_t *)-1;
  else if (master_kind == 1) G_master_ret = 0;
  else if (master_kind == 2) { G_ret_sv.type = T_NUMBER; G_ret_sv.u.number = master_num; G_master_ret = &G_ret_sv; }
  else { G_ret_sv.type = T_STRING; G_ret_sv.u.string = G_creator; G_master_ret = &G_ret_sv; }
  return G_master_ret;
}

#define C20_LOADER_MATCH (current_object != 0 && current_object->uid != 0 && G_eq_loader)
#define C20_BACKBONE_MATCH (current_object != 0 && !C20_LOADER_MATCH && backbone_uid != 0 && current_object->euid != 0 && G_eq_backbone)
#define C20_CREATOR_IS_STRING (G_master_ret != 0 && G_master_ret != (svalue_t *)-1 && G_master_ret->type == T_STRING)

int V_STATIC(simulate_c, give_uid_to_object)(object_t *ob)
__CPROVER_requires(ob == G_ob && ob != 0 && ob != current_object && sp == &G_stack[0] && G_master_calls == 0 && G_add_uid_calls == 0 && G_error == 0 && !G_cmp_other)
__CPROVER_requires(g_main_options == &G_opts)
__CPROVER_assigns(ob->uid, ob->euid, sp, __CPROVER_object_whole(G_stack), G_error, G_master_calls, G_master_fun, G_master_ret, G_ret_sv,
                  G_add_uid_name, G_add_uid_calls, G_add_noname, G_add_creator, G_destructed, G_cmp_other)
__CPROVER_ensures(!G_cmp_other && sp == &G_stack[0])
/* a created object always has a uid */
__CPROVER_ensures(ob->uid != 0)
/* (a) before the master exists */
__CPROVER_ensures(G_state < MS_MUDLIB_LIMBO ==> (G_master_calls == 0 && ob->uid == &G_uid_noname && ob->euid == 0))
/* (b) afterwards the master's creator_file is always consulted, exactly once; without a master there is no object */
__CPROVER_ensures(G_state >= MS_MUDLIB_LIMBO ==> (G_master_calls == 1 && G_master_ret != (svalue_t *)-1))
/* (c) same creator as the loader: the loader's uid, euid untouched */
__CPROVER_ensures((G_state >= MS_MUDLIB_LIMBO && C20_LOADER_MATCH) ==> (ob->uid == current_object->uid && ob->euid == __CPROVER_old(ob->euid) && G_add_uid_calls == 0))
/* (d) trusted backbone creator: uid and euid are the loader's euid */
__CPROVER_ensures((G_state >= MS_MUDLIB_LIMBO && C20_BACKBONE_MATCH) ==> (ob->uid == current_object->euid && ob->euid == current_object->euid && G_add_uid_calls == 0))
/* (e) anybody else: uid is the creator name the master gave (or NONAME), euid 0 */
__CPROVER_ensures((G_state >= MS_MUDLIB_LIMBO && !C20_LOADER_MATCH && !C20_BACKBONE_MATCH) ==>
                  (ob->euid == 0 && G_add_uid_calls == 1 && (C20_CREATOR_IS_STRING ? (ob->uid == &G_uid_new && G_add_creator) : (ob->uid == &G_uid_noname && G_add_noname))))
;

void h_give_uid_to_object(void) {
  static object_t me, newob, mast; static userid_t u_me, u_eme, u_bb; static char n_me[] = "me", n_bb[] = "bb", n_ob[] = "x";
  V_FILL(object_t, me, me); V_FILL(object_t, newob, newob); V_FILL(main_options_t, G_opts, opts);
  g_main_options = &G_opts;
  u_me.name = n_me; u_eme.name = n_me; u_bb.name = n_bb; newob.name = n_ob; me.name = n_me;
  V_DECL(int, has_cur); V_DECL(int, cur_uid); V_DECL(int, cur_euid); V_DECL(int, has_bb); V_DECL(int, st); V_DECL(int, eql); V_DECL(int, eqb);
  current_object = has_cur ? &me : 0; me.uid = cur_uid ? &u_me : 0; me.euid = cur_euid ? &u_eme : 0;
  backbone_uid = has_bb ? &u_bb : 0; G_state = st; G_eq_loader = eql != 0; G_eq_backbone = eqb != 0;
  G_ob = &newob; sp = &G_stack[0];
  V_STATIC(simulate_c, give_uid_to_object)(&newob);
  V_COVER(newob.uid == &u_me); V_COVER(newob.uid == &u_eme && newob.euid == &u_eme); V_COVER(newob.uid == &G_uid_new); V_COVER(newob.uid == &G_uid_noname && st >= MS_MUDLIB_LIMBO);
}
