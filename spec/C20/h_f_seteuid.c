/*@harness
{"tier":"quick","mode":"width","tus":["lib/efuns/uids.c"],"enforce":"f_seteuid","stub_out":["add_uid"],
 "flags":["--bounds-check","--pointer-check"],"timeout":300,
 "expect":["f_seteuid.postcondition","f_seteuid.assigns","apply_master_ob.assertion"],
 "native":{},
 "assumptions":["apply_master_ob stub: pops its arguments and answers (svalue_t*)-1, NULL, or a number/string svalue",
                "add_uid stub: hands out the userid for the name it is given (AVL tree not modelled)"]}
@*/
#include "c20_env.h"

svalue_t *apply_master_ob(const char *fun, int num_arg) {
  G_master_fun = fun; G_master_is_seteuid = v_streq(fun, APPLY_VALID_SETEUID); if (G_master_calls < 100) G_master_calls++;
  V_ASSERT(num_arg == 2 && sp == &G_stack[3], "valid_seteuid is applied with two arguments on the stack");
  G_master_args_ok = (sp[-1].type == T_OBJECT && sp[-1].u.ob == current_object && sp[0].type == T_STRING && sp[0].u.string == G_req_name);
  sp -= num_arg;
  V_DECL(int, master_kind); V_DECL(int64_t, master_num);
  if (master_kind == 0) G_master_ret = (svalue_t *)-1;
  else if (master_kind == 1) G_master_ret = 0;
  else if (master_kind == 2) { G_ret_sv.type = T_NUMBER; G_ret_sv.u.number = master_num; G_master_ret = &G_ret_sv; }
  else { G_ret_sv.type = T_STRING; G_ret_sv.u.string = "x"; G_master_ret = &G_ret_sv; }
  return G_master_ret;
}

/* seteuid(): the effective uid changes only to 0, or to the requested name after the master approved */
void f_seteuid(void)
__CPROVER_requires(sp == &G_stack[1] && current_object != 0 && G_master_calls == 0 && G_add_uid_calls == 0 && G_error == 0)
__CPROVER_requires((sp->type == T_NUMBER) || (sp->type == T_STRING && sp->u.string == G_req_name && G_req_name != 0))
__CPROVER_assigns(current_object->euid, sp, __CPROVER_object_whole(G_stack), G_error, G_master_calls, G_master_fun, G_master_args_ok,
                  G_master_ret, G_master_is_seteuid, G_add_uid_name, G_add_uid_calls, G_ret_sv)
__CPROVER_ensures(sp == &G_stack[1])
__CPROVER_ensures((current_object->euid != __CPROVER_old(current_object->euid)) ==>
   ( (__CPROVER_old(sp->type) == T_NUMBER && __CPROVER_old(sp->u.number) == 0 && current_object->euid == 0)
  || (__CPROVER_old(sp->type) == T_STRING && G_master_calls == 1 && G_master_args_ok && MASTER_APPROVED(G_master_ret)
      && G_add_uid_calls == 1 && G_add_uid_name == G_req_name && current_object->euid == &G_uid_new) ))
/* the master is asked valid_seteuid, and only for a string request */
__CPROVER_ensures(G_master_calls <= 1 && (G_master_calls == 1 ==> (__CPROVER_old(sp->type) == T_STRING && G_master_is_seteuid)))
/* the efun answers 1 exactly when the euid was (re)set */
__CPROVER_ensures(sp->type == T_NUMBER && (sp->u.number == 1 || sp->u.number == 0))
__CPROVER_ensures((__CPROVER_old(sp->type) == T_STRING && !MASTER_APPROVED(G_master_ret)) ==> (current_object->euid == __CPROVER_old(current_object->euid) && sp->u.number == 0))
;

void h_f_seteuid(void) {
  static object_t me; static char name[] = "wiz";
  V_FILL(object_t, me, me);
  current_object = &me;
  V_DECL(int, arg_is_num); V_DECL(int64_t, arg_num);
  sp = &G_stack[1];
  const1.type = T_NUMBER; const1.u.number = 1; const0.type = T_NUMBER; const0.u.number = 0;
  if (arg_is_num) { sp->type = T_NUMBER; sp->u.number = arg_num; G_req_name = 0; }
  else { sp->type = T_STRING; sp->subtype = STRING_CONSTANT; sp->u.string = name; G_req_name = name; }
  userid_t *old = me.euid;
  f_seteuid();
  V_COVER(me.euid == &G_uid_new); V_COVER(me.euid == 0 && old != 0); V_COVER(me.euid == old && G_master_calls == 1);
}
