/*@harness
{"tier":"quick","mode":"width","tus":["lib/efuns/uids.c"],"enforce":"f_export_uid","stub_out":["add_uid"],
 "flags":["--bounds-check","--pointer-check"],"timeout":300,
 "expect":["f_export_uid.postcondition","f_export_uid.assigns"],
 "native":{}}
@*/
#include "c20_env.h"
static object_t *G_target;

/* export_uid(ob): ob's uid becomes the caller's euid only if the caller has one and ob has no euid; no euid ever changes */
void f_export_uid(void)
__CPROVER_requires(sp == &G_stack[1] && current_object != 0 && sp->type == T_OBJECT && sp->u.ob == G_target && G_target != 0 && G_error == 0)
__CPROVER_assigns(G_target->uid, __CPROVER_object_whole(G_stack), G_error)
__CPROVER_ensures(sp == &G_stack[1] && sp->type == T_NUMBER)
__CPROVER_ensures((G_target->uid != __CPROVER_old(G_target->uid)) ==>
                  (current_object->euid != 0 && G_target->euid == 0 && G_target->uid == current_object->euid && sp->u.number == 1))
__CPROVER_ensures((G_target->euid != 0) ==> (G_target->uid == __CPROVER_old(G_target->uid) && sp->u.number == 0))
/* an object without euid cannot export: the efun raises an error instead of returning */
__CPROVER_ensures(current_object->euid != 0)
;

void h_f_export_uid(void) {
  static object_t me, other;
  V_FILL(object_t, me, me); V_FILL(object_t, other, other);
  V_DECL(int, self);
  current_object = &me; G_target = self ? &me : &other;
  const1.type = T_NUMBER; const1.u.number = 1; const0.type = T_NUMBER; const0.u.number = 0;
  sp = &G_stack[1]; sp->type = T_OBJECT; sp->u.ob = G_target;
  userid_t *old = G_target->uid;
  f_export_uid();
  V_COVER(G_target->uid != old); V_COVER(G_target->uid == old && sp->u.number == 0); V_COVER(self);
}
