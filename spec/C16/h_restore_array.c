/*@harness
{"tier":"quick","mode":"bounded(value text of at most 6 characters over every byte value except '[' and '/' (no mappings, no classes), NUL terminated at the end of its buffer; arrays of at most 2 elements)","tus":["lib/lpc/object.c"],"dfcc":false,
 "stub_out":["object.c:restore_mapping","object.c:restore_class"],
 "functions":["restore_svalue","restore_array","restore_size","restore_internal_size","restore_interior_string","restore_string","parse_numeric"],
 "flags":["--bounds-check","--pointer-check","--no-malloc-may-fail","--object-bits","10","--unwindset","__CPROVER_file_local_object_c_restore_array:2,__CPROVER_file_local_object_c_restore_internal_size:3"],"unwind":9,"timeout":1500,
 "expect":["restore_array.pointer_dereference","restore_size.pointer_dereference","h_restore_array.assertion"],
 "ignore":[{"class":"array_bounds","text_contains":"->item","why":"struct-hack member item[1]"},
           {"class":"overflow","text_contains":"res","why":"decimal accumulation of an over-long number wraps (unsigned)"}],
 "native":{},
 "assumptions":["allocate_array / int_new_string are exact-size allocation stubs; free_array / free_svalue only count","mblen is the single-byte model (0 for NUL, 1 otherwise)",
                "restore_mapping / restore_class are not reached (their opening characters are excluded from the text)"],
 "notes":"C16 robust restore for array values: whatever the text, the two passes (size pass, element pass) read only inside the value's buffer, write only inside the array they allocated, and answer an error or a value"}
@*/
#include "c16_env.h"
#include "lpc/array.h"
#include "lpc/mapping.h"
int restore_svalue(char *cp, svalue_t *v);
static char G_buf[9]; static int G_frees;
array_t the_null_array; svalue_t const0;
int mblen(const char *s, size_t n) { return (s && *s) ? 1 : 0; }
char *xalloc(size_t n) { char *r = malloc(n); V_ASSUME(r != 0); return r; }
void *xcalloc(size_t a, size_t b) { void *r = calloc(a, b); V_ASSUME(r != 0); return r; }
void free_array(array_t *a) { if (G_frees < 10) G_frees++; }
void free_svalue(svalue_t *v, const char *w) { }
void free_string_svalue(svalue_t *v) { }
int V_STATIC(object_c, restore_mapping)(char **s, svalue_t *v) { V_UNREACHABLE_STUB("restore_mapping"); V_STOP(); return 0; }
int V_STATIC(object_c, restore_class)(char **s, svalue_t *v) { V_UNREACHABLE_STUB("restore_class"); V_STOP(); return 0; }
array_t *allocate_array(size_t n) {
  V_ASSERT(n <= 3, "the size pass never announces more elements than the text can hold");
  if (n > 3) V_STOP();
  array_t *a = n <= 1 ? (array_t *)malloc(sizeof(array_t)) : n == 2 ? (array_t *)malloc(sizeof(array_t) + sizeof(svalue_t)) : (array_t *)malloc(sizeof(array_t) + 2 * sizeof(svalue_t));
  V_ASSUME(a != 0);
  a->ref = 1; a->size = (unsigned short)n;
  svalue_t *it = a->item;
  for (int i = 0; i < 3; i++) if ((size_t)i < n) { it[i].type = T_NUMBER; it[i].subtype = 0; it[i].u.number = 0; }
  return a;
}
char *int_new_string(size_t n) {
  V_ASSERT(n <= 8, "a restored string is not longer than the text it was read from");
  if (n > 8) V_STOP();
  char *blk = n <= 1 ? malloc(sizeof(malloc_block_t) + 2) : n <= 3 ? malloc(sizeof(malloc_block_t) + 4) : malloc(sizeof(malloc_block_t) + 9);
  V_ASSUME(blk != 0);
  ((malloc_block_t *)blk)->size = (unsigned short)n; ((malloc_block_t *)blk)->ref = 1;
  return blk + sizeof(malloc_block_t);
}

void h_restore_array(void) {
  static svalue_t v;
  V_FILL(main_options_t, G_opts, opts); g_main_options = &G_opts;
  V_DECL(int, len); V_ASSUME(2 <= len && len <= 6);
  V_DECL(char, c2); V_DECL(char, c3); V_DECL(char, c4); V_DECL(char, c5); char c6 = 0;
  char t[7] = {'(', '{', c2, c3, c4, c5, c6};           /* an array value: the text starts with "({" */
  char *start = &G_buf[8 - len];
  for (int i = 0; i < 7; i++) if (i < len) { V_ASSUME(t[i] != 0 && t[i] != '[' && t[i] != '/'); start[i] = t[i]; }
  G_buf[8] = 0;
  V_COVER(len == 6 && c2 == '1' && c3 == ',' && c4 == '}' && c5 == ')');
  V_COVER(len == 5 && c2 == '"');
  int r = restore_svalue(start, &v);
  V_ASSERT(r != 0 || v.type == T_ARRAY, "the parser answers an error or yields an array");
  V_COVER(r == 0 && len == 6);
  V_COVER(r == 0 && len == 4);
}
