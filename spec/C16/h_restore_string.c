/*@harness
{"tier":"quick","mode":"bounded(value text of at most 7 characters, every byte value, placed so that its terminating NUL is the last byte of the buffer)","tus":["lib/lpc/object.c"],"dfcc":false,
 "functions":["restore_string","restore_interior_string"],
 "flags":["--bounds-check","--pointer-check","--no-malloc-may-fail"],"unwind":10,"timeout":600,
 "expect":["restore_string.pointer_dereference","restore_interior_string.pointer_dereference","h_restore_string.assertion"],
 "native":{},
 "assumptions":["int_new_string is an exact-size allocation stub (at most 8 bytes of text)","the text is NUL terminated, as restore_object_from_buff hands each value over (the line end is overwritten with NUL)"],
 "notes":"C16 robust restore: for ANY text in a save file the string parsers read and write only inside the value's buffer and either produce a string or answer an error"}
@*/
#include "c16_env.h"
int restore_string(char *val, svalue_t *sv);
int V_STATIC(object_c, restore_interior_string)(char **val, svalue_t *sv);
static char G_buf[9];
char *int_new_string(size_t n) {
  V_ASSERT(n <= 8, "the restored string is not longer than the text it was read from");
  char *blk = n == 0 ? malloc(sizeof(malloc_block_t) + 1) : n == 1 ? malloc(sizeof(malloc_block_t) + 2) : n == 2 ? malloc(sizeof(malloc_block_t) + 3) : n == 3 ? malloc(sizeof(malloc_block_t) + 4)
            : n == 4 ? malloc(sizeof(malloc_block_t) + 5) : n == 5 ? malloc(sizeof(malloc_block_t) + 6) : n == 6 ? malloc(sizeof(malloc_block_t) + 7) : malloc(sizeof(malloc_block_t) + 9);
  V_ASSUME(blk != 0);
  if (n > 8) V_STOP();
  ((malloc_block_t *)blk)->size = (unsigned short)n; ((malloc_block_t *)blk)->ref = 1;
  return blk + sizeof(malloc_block_t);
}

void h_restore_string(void) {
  static svalue_t v;
  V_FILL(main_options_t, G_opts, opts); g_main_options = &G_opts;
  V_DECL(int, len); V_DECL(int, interior);
  V_ASSUME(0 <= len && len <= 7);
  V_DECL(char, c0); V_DECL(char, c1); V_DECL(char, c2); V_DECL(char, c3); V_DECL(char, c4); V_DECL(char, c5); V_DECL(char, c6);
  /* the text occupies the last len+1 bytes of the buffer: one byte past its NUL is outside the object */
  char t[7] = {c0, c1, c2, c3, c4, c5, c6};
  char *start = &G_buf[8 - len];
  for (int i = 0; i < 7; i++) if (i < len) { V_ASSUME(t[i] != 0); start[i] = t[i]; }
  G_buf[8] = 0;
  V_COVER(len == 4 && c0 == '\\' && c3 != '"');
  V_COVER(len == 3 && c2 == '"');
  int r;
  if (interior) { char *p = start; r = V_STATIC(object_c, restore_interior_string)(&p, &v); }
  else r = restore_string(start, &v);
  V_ASSERT(r != 0 || (v.type == T_STRING && v.subtype == STRING_MALLOC), "the parser answers an error or yields a malloc string");
  V_COVER(r == 0 && len == 5);
}
