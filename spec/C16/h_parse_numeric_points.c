/*@harness
{"tier":"quick","mode":"bounded(concrete decimal texts on both sides of 2^31 and 2^32 and at the 64-bit extremes)","tus":["lib/lpc/object.c"],"dfcc":false,
 "functions":["parse_numeric"],
 "flags":["--bounds-check","--pointer-check","--signed-overflow-check"],"unwind":24,"timeout":300,
 "expect":["check_text.assertion"],
 "native":{},
 "notes":"restore side of the integer round trip at concrete boundary texts (a symbolic 64-bit proof exhausts the SAT back end)"}
@*/
#include "c16_env.h"
static void check_text(const char *txt, int64_t want) {
  char buf[32]; int i = 0; for (; txt[i]; i++) buf[i] = txt[i]; buf[i] = 0;
  char *cp = buf + 1; svalue_t out; out.type = T_INVALID;
  int ok = V_STATIC(object_c, parse_numeric)(&cp, buf[0], &out);
  V_ASSERT(ok == 1 && out.type == T_NUMBER, "a decimal integer text restores as an integer");
  V_ASSERT(out.u.number == want, "the restored integer is the number the text denotes (full 64-bit range)");
}
void h_parse_numeric_points(void) {
  check_text("0", 0); check_text("-1", -1); check_text("2147483647", 2147483647LL);
  check_text("2147483648", 2147483648LL); check_text("-2147483649", -2147483649LL);
  check_text("4294967296", 4294967296LL); check_text("1000000000000000000", 1000000000000000000LL);
  check_text("9223372036854775807", 9223372036854775807LL); check_text("-9223372036854775807", -9223372036854775807LL);
  check_text("-9223372036854775808", (-9223372036854775807LL - 1));
  V_COVER(1);
}
