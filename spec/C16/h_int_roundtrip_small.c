/*@harness
{"tier":"quick","mode":"bounded(|v| < 1000 symbolic, plus the concrete boundary values +-2^31, +-2^32, +-10^18, INT64_MAX, INT64_MIN+1)","tus":["lib/lpc/object.c"],"dfcc":false,
 "functions":["svalue_save_size","save_svalue","parse_numeric"],
 "flags":["--bounds-check","--pointer-check","--signed-overflow-check"],"unwind":24,"timeout":3000,
 "expect":["h_int_roundtrip_small.assertion","save_svalue.overflow","parse_numeric.overflow"],
 "native":{},
 "notes":"bounded stand-in for h_int_roundtrip (full 64-bit domain, thorough tier): SAT does not finish the /10 %10 *10 chains over 64 bits in quick-tier time"}
@*/
#include "c16_env.h"
static void check_one(int64_t v) {
  svalue_t sv, out; char buf[40];
  sv.type = T_NUMBER; sv.subtype = 0; sv.u.number = v;
  size_t size = svalue_save_size(&sv);
  V_ASSERT(size <= 22, "save size of an integer is at most sign + 19 digits + delimiter + 1");
  char *p = buf;
  save_svalue(&sv, &p);
  V_ASSERT((size_t)(p - buf) == size - 1, "save_svalue writes exactly svalue_save_size - 1 bytes for an integer");
  V_ASSERT(*p == 0, "saved text is NUL terminated");
  char *cp = buf + 1; out.type = T_INVALID;
  int ok = V_STATIC(object_c, parse_numeric)(&cp, buf[0], &out);
  V_ASSERT(ok == 1 && out.type == T_NUMBER, "restoring a saved integer yields an integer");
  V_ASSERT(out.u.number == v, "restore(save(v)) == v");
}
void h_int_roundtrip_small(void) {
  /* concrete boundary values on both sides of 2^31, 2^32, 10^18 and the 64-bit extremes */
  static const int64_t special[] = {2147483647LL, 2147483648LL, -2147483648LL, -2147483649LL, 4294967296LL, -4294967296LL,
                                    1000000000000000000LL, -1000000000000000000LL, 9223372036854775807LL, -9223372036854775807LL};
  for (int k = 0; k < 10; k++) check_one(special[k]);
  /* and every value of a small symbolic range */
  V_DECL(int64_t, vs); V_ASSUME(vs > -1000 && vs < 1000);
  check_one(vs);
  V_COVER(vs == -999); V_COVER(vs == 0);
}
