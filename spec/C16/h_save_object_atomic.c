/*@harness
{"tier":"quick","mode":"width","tus":["lib/lpc/object.c"],"dfcc":false,"functions":["save_object"],
 "stub_out":["object.c:save_object_recurse"],
 "flags":["--bounds-check","--pointer-check"],"unwind":40,"timeout":900,
 "expect":["fopen.assertion","rename.assertion","unlink.assertion","h_save_object_atomic.assertion"],
 "native":{"rename":["fopen","fprintf","snprintf","rename","unlink","fclose"]},
 "assumptions":["check_valid_path stub returns the approved name G_ok or 0 (C15)","save_object_recurse replaced by a stub that succeeds or fails nondeterministically",
                "fopen/fprintf/fclose/rename/unlink are stubs with nondeterministic results; atomicity of rename() itself is POSIX (trusted)"],
 "notes":"ordering obligations of the atomic save: only the temporary file is ever opened for writing; rename(tmp, file) is reached only after every write and the close succeeded; on any failure the previous save file is not touched"}
@*/
#include "c16_env.h"
#include <stdarg.h>
#include <stdio.h>
svalue_t *sp; static svalue_t G_stack[4];
static char G_ok[20]; static int G_granted;
static char *G_tmp; static const char *G_tmp_src;     /* destination and %s argument of the snprintf that builds the temp name */
static int G_opened, G_hdr_ok = -1, G_body_ok = -1, G_close_ok = -1, G_renamed, G_unlinked_tmp, G_unlinked_file;
static FILE *G_f;
int save_object(object_t *ob, const char *file, int save_zeros);

char *check_valid_path(const char *path, object_t *o, const char *fn, int w) { V_ASSERT(w == 1 && v_streq(fn, "save_object"), "save_object asks for write access"); V_DECL(int, granted); G_granted = granted != 0; return G_granted ? &G_ok[0] : (char *)0; }
char *int_new_string(size_t n) { char *r = malloc(n + 1); V_ASSUME(r != 0); return r; }
void push_malloced_string(char *s) { sp++; sp->type = T_STRING; sp->u.string = s; }
void free_string_svalue(svalue_t *v) { }
int snprintf(char *d, size_t n, const char *fmt, ...) {
  va_list ap; va_start(ap, fmt); const char *a = va_arg(ap, const char *); va_end(ap);
  V_ASSERT(v_streq(fmt, "%.250s.tmp"), "temporary name is <approved name>.tmp"); G_tmp = d; G_tmp_src = a; if (n) d[0] = 't'; if (n > 1) d[1] = 0; return 1; }
FILE *fopen(const char *p, const char *mode) {
  V_ASSERT(G_granted && p == G_tmp && G_tmp_src == (const char *)G_ok && p != (const char *)G_ok, "only the temporary file (approved name + .tmp) is opened for writing, never the save file itself");
  if (G_opened < 10) G_opened++;
  V_DECL(int, fopen_ok); if (!fopen_ok) return 0; G_f = (FILE *)malloc(16); V_ASSUME(G_f != 0); return G_f; }
int fprintf(FILE *f, const char *fmt, ...) { V_ASSERT(f == G_f, "header goes to the temporary file"); V_DECL(int, hdr_ok); G_hdr_ok = hdr_ok != 0; return G_hdr_ok ? 5 : -1; }
int V_STATIC(object_c, save_object_recurse)(program_t *prog, svalue_t **svp, int type, int save_zeros, FILE *f) { V_ASSERT(f == G_f, "variables go to the temporary file"); V_DECL(int, body_ok); G_body_ok = body_ok != 0; return G_body_ok; }
int fclose(FILE *f) { V_ASSERT(f == G_f, "the temporary file is closed"); V_DECL(int, close_ok); G_close_ok = close_ok != 0; return G_close_ok ? 0 : -1; }
int rename(const char *a, const char *b) {
  V_ASSERT(a == G_tmp && b == (const char *)G_ok, "rename moves the temporary file onto the approved save file");
  V_ASSERT(G_hdr_ok == 1 && G_body_ok == 1 && G_close_ok == 1, "rename is reached only after header, variables and close all succeeded");
  G_renamed++; V_DECL(int, rename_ok); return rename_ok ? 0 : -1; }
int unlink(const char *p) { V_ASSERT(p == G_tmp, "only the temporary file is ever removed, the previous save file is left alone"); if (p == G_tmp) G_unlinked_tmp++; else G_unlinked_file++; return 0; }
int debug_perror_with_src(const char *a, const char *b, int c, const char *d, const char *e) { return 0; }
int debug_message(const char *fmt, ...) { return 0; }

void h_save_object_atomic(void) {
  static object_t ob; static program_t prog; static char pname[] = "obj/x";
  V_FILL(object_t, ob, ob); V_FILL(main_options_t, G_opts, opts); g_main_options = &G_opts;
  ob.prog = &prog; prog.name = pname;
  V_DECL(char, f0); V_DECL(char, f1); V_DECL(char, f2); V_DECL(char, f3); V_DECL(char, f4);
  char *file = malloc(6); V_ASSUME(file != 0);             /* a heap string of 1..5 characters */
  file[0] = f0; file[1] = f1; file[2] = f2; file[3] = f3; file[4] = f4; file[5] = 0;
  V_ASSUME(f0 != 0);     /* any non-empty name */
  sp = &G_stack[0];
  V_DECL(int, save_zeros);
  int r = save_object(&ob, file, save_zeros);
  V_ASSERT(r == 0 || r == 1, "save_object answers 0 or 1");
  V_ASSERT(r != 1 || (G_renamed == 1 && G_hdr_ok == 1 && G_body_ok == 1 && G_close_ok == 1), "save_object reports success only after a complete write and rename");
  V_ASSERT(G_unlinked_file == 0 && G_renamed <= 1, "the previous save file is never removed; at most one rename");
  V_ASSERT(sp == &G_stack[0], "value stack balanced");
  V_COVER(r == 1); V_COVER(r == 0 && G_opened == 1 && G_body_ok == 0); V_COVER(r == 0 && G_renamed == 1); V_COVER((ob.flags & O_DESTRUCTED) && r == 0);
}
