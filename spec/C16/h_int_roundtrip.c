/*@harness
{"tier":"thorough","mode":"width","tus":["lib/lpc/object.c"],"dfcc":false,
 "functions":["svalue_save_size","save_svalue","parse_numeric"],
 "flags":["--bounds-check","--pointer-check","--signed-overflow-check"],"unwind":22,"timeout":3000,
 "expect":["h_int_roundtrip.assertion","save_svalue.overflow","parse_numeric.overflow"],
 "native":{},
 "notes":"complete by width: a 64-bit integer has at most 19 digits + sign, the digit loops are unwound 22 times with unwinding assertions"}
@*/
#include "c16_env.h"
void h_int_roundtrip(void) {
  V_DECL(int64_t, v);
  svalue_t sv, out; char buf[40];
  sv.type = T_NUMBER; sv.subtype = 0; sv.u.number = v;
  size_t size = svalue_save_size(&sv);
  V_ASSERT(size <= 22, "save size of an integer is at most sign + 19 digits + delimiter + 1");
  char *p = buf;
  save_svalue(&sv, &p);
  V_ASSERT((size_t)(p - buf) == size - 1, "save_svalue writes exactly svalue_save_size - 1 bytes for an integer");
  V_ASSERT(*p == 0, "saved text is NUL terminated");
  char *cp = buf + 1; out.type = T_INVALID;
  int ok = V_STATIC(object_c, parse_numeric)(&cp, buf[0], &out);
  V_ASSERT(ok == 1 && out.type == T_NUMBER, "restoring a saved integer yields an integer");
  V_ASSERT(out.u.number == v, "restore(save(v)) == v for every 64-bit integer");
  V_COVER(v == 9223372036854775807LL); V_COVER(v < -4294967296LL); V_COVER(v == 0);
}
