#ifndef C16_ENV_H
#define C16_ENV_H
#ifdef HAVE_CONFIG_H
#include <config.h>
#endif
#include "src/std.h"
#include "lpc/types.h"
#include "lpc/object.h"
#include "lpc/program.h"
#include "src/interpret.h"
#include "src/main.h"
#include "vharness.h"
main_options_t *g_main_options; static main_options_t G_opts;
int debug_message_with_src(const char *a, const char *b, const char *c, int d, const char *e, ...) { return 0; }
size_t svalue_save_size(const svalue_t *v);
void save_svalue(svalue_t *v, char **buf);
int V_STATIC(object_c, parse_numeric)(char **cpp, char c, svalue_t *dest);
#endif
