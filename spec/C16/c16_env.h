#ifndef C16_ENV_H
#define C16_ENV_H
#ifdef HAVE_CONFIG_H
#include <config.h>
#endif
#include "src/std.h"
#include "lpc/types.h"
#include "lpc/object.h"
#include "lpc/program.h"
#include "src/interpret.h"
#include "src/main.h"
#include "vharness.h"
#include <ctype.h>
main_options_t *g_main_options; static main_options_t G_opts;
int debug_message_with_src(const char *a, const char *b, const char *c, int d, const char *e, ...) { return 0; }
size_t svalue_save_size(const svalue_t *v);
void save_svalue(svalue_t *v, char **buf);
int V_STATIC(object_c, parse_numeric)(char **cpp, char c, svalue_t *dest);

/* glibc's isdigit() is a table lookup through __ctype_b_loc(); CBMC has no model, so supply the table
   (trusted libc model: _ISdigit for '0'..'9' only) */
#ifndef V_NATIVE
static unsigned short G_ctype_tab[384];
static const unsigned short *G_ctype_ptr;
const unsigned short **__ctype_b_loc(void) {
  for (int c = '0'; c <= '9'; c++) G_ctype_tab[128 + c] = (unsigned short)_ISdigit;
  G_ctype_ptr = &G_ctype_tab[128];
  return &G_ctype_ptr;
}
#endif
#endif
