/*@harness
{"tier":"quick","mode":"bounded(path length <= 7, every byte value, real strchr/strstr models)","tus":["lib/efuns/file_utils.c"],"dfcc":false,
 "functions":["legal_path"],
 "flags":["--bounds-check","--pointer-check"],"unwind":10,"timeout":900,
 "expect":["h_legal_path.assertion","legal_path.pointer_dereference"],
 "native":{"rename":["strstr"]},"assumptions":["strstr: naive reference implementation supplied by the harness (CBMC has no model)","strchr: CBMC library model"],
 "notes":"bounded stand-in: legal_path's scan uses strstr/strchr; CBMC's library models are unwound up to the length bound and the result is compared with an independent component-wise oracle for every string of length <= 7"}
@*/
#include "c15_env.h"
#define C15_MAXLEN 7
/* libc strstr, reference implementation (CBMC 6.11 ships no model); trusted */
char *strstr(const char *h, const char *nd) {
  if (!nd[0]) return (char *)h;
  for (int i = 0; h[i]; i++) {
    int j = 0;
    while (nd[j] && h[i + j] == nd[j]) j++;
    if (!nd[j]) return (char *)(h + i);
  }
  return 0;
}
void h_legal_path(void) {
  static char buf[C15_MAXLEN + 1];
  V_DECL(int, n); V_ASSUME(0 <= n && n <= C15_MAXLEN);
  V_DECL(v_uchar, c0); V_DECL(v_uchar, c1); V_DECL(v_uchar, c2); V_DECL(v_uchar, c3); V_DECL(v_uchar, c4); V_DECL(v_uchar, c5); V_DECL(v_uchar, c6);
  v_uchar cs[C15_MAXLEN] = {c0, c1, c2, c3, c4, c5, c6};
  for (int i = 0; i < C15_MAXLEN; i++) { if (i < n) { V_ASSUME(cs[i] != 0); buf[i] = (char)cs[i]; } else buf[i] = 0; }
  buf[C15_MAXLEN] = 0;
  V_FILL(main_options_t, G_opts, opts); g_main_options = &G_opts;
  int r = legal_path(buf);
  int o = c15_legal_oracle(buf, n);
  /* the safety direction of C15: whatever legal_path accepts is relative, has no '#' and no '.'/'..' component */
  V_ASSERT(!r || o, "legal_path accepts only relative paths without '#', '.' and '..' components");
  /* and it is not stricter than documented (keeps the check from being trivially 'return 0') */
  V_ASSERT(r || !o, "legal_path accepts every path the documented rule allows");
  V_ASSERT(legal_path(0) == 0, "legal_path(NULL) is rejected");
  V_COVER(r && n == 7); V_COVER(!r && n == 2 && buf[0] == '.' && buf[1] == '.'); V_COVER(r && n >= 3 && buf[n-1] == '.' && buf[n-2] == '/');
}
