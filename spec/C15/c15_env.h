#ifndef C15_ENV_H
#define C15_ENV_H
#ifdef HAVE_CONFIG_H
#include <config.h>
#endif
#include "src/std.h"
#include "rc.h"
#include "lpc/types.h"
#include "lpc/object.h"
#include "src/interpret.h"
#include "src/apply.h"
#include "src/main.h"
#include "applies.h"
/* efuns/file_utils.h is NOT included: it declares check_valid_path with unnamed parameters, and goto-instrument 6.11
   crashes when a contract is attached to a symbol whose first declaration has no parameter names */
int legal_path(const char *path);
char *check_valid_path(const char *path, object_t *call_object, const char *call_fun, int writeflg);
#include "vharness.h"
main_options_t *g_main_options; static main_options_t G_opts;
int debug_message_with_src(const char *a, const char *b, const char *c, int d, const char *e, ...) { return 0; }
/* legality oracle written independently of the implementation: relative, no '#', no "." (except as the last
   component... a trailing ".") and no ".." component.  n = strlen(s). */
static int c15_legal_oracle(const char *s, int n) {
  if (n > 0 && s[0] == '/') return 0;
  for (int i = 0; i < n; i++) if (s[i] == '#') return 0;
  for (int i = 0; i < n; i++) {
    if (i == 0 || s[i - 1] == '/') {                 /* a component starts at i */
      int j = i; while (j < n && s[j] != '/') j++;    /* ... and ends before j */
      int len = j - i;
      if (len == 2 && s[i] == '.' && s[i + 1] == '.') return 0;          /* ".." */
      if (len == 1 && s[i] == '.' && j < n) return 0;                    /* "./" (a trailing "." is allowed) */
    }
  }
  return 1;
}
#endif
