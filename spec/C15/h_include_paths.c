/*@harness
{"tier":"quick","mode":"bounded(include names of at most 4 characters over the alphabet {a . /}, including file d/f.c or f.c)","tus":["lib/lpc/lex.c"],"dfcc":false,
 "functions":["inc_open","inc_lexically_normal","has_dotdot_component"],
 "flags":["--bounds-check","--pointer-check","--object-bits","11"],"unwind":8,"timeout":900,
 "expect":["open.assertion","inc_lexically_normal.pointer_dereference"],
 "ignore":[{"class":"overflow","text_contains":"strncat (dest, from, slash - from)","why":"CBMC reports signed overflow on the pointer difference slash - from == -1 (from one past slash after skipping slashes); natively defined and UBSan-clean - the resulting huge strncat bound is covered by the bounds obligations"}],
 "native":{"rename":["open"]},
 "assumptions":["open() is the sink stub: it asserts the confinement of the path it is given; no include search directories configured (inc_list empty)",
                "strncmp/strrchr/strchr/strcat/strncat/strcpy: CBMC library models (unwound to the length bound)"],
 "notes":"#include name normalisation: whatever name the source gives, the path handed to open() is relative and has no '..' component"}
@*/
#ifdef HAVE_CONFIG_H
#include <config.h>
#endif
#include "std.h"
#include "lpc/lex.h"
#include "src/main.h"
#include "vharness.h"
#include <fcntl.h>
main_options_t *g_main_options; static main_options_t G_opts;
int debug_message_with_src(const char *a, const char *b, const char *c, int d, const char *e, ...) { return 0; }
static int G_opens;
static int oracle_dotdot(const char *p) {
  for (int i = 0; i < 24 && p[i]; i++)
    if ((i == 0 || p[i - 1] == '/') && p[i] == '.' && p[i + 1] == '.' && (p[i + 2] == '/' || p[i + 2] == 0)) return 1;
  return 0;
}
int open(const char *p, int fl, ...) {
  if (G_opens < 10) G_opens++;
  V_ASSERT(p[0] != '/', "#include never opens an absolute host path");
  V_ASSERT(!oracle_dotdot(p), "#include never opens a path with a '..' component");
  return -1;
}
int V_STATIC(lex_c, inc_open)(char *buf, const char *name);
extern char *current_file;

void h_include_paths(void) {
  static char buf[1024]; static char name[6]; static char base1[] = "d/f.c", base2[] = "f.c";
  V_FILL(main_options_t, G_opts, opts); g_main_options = &G_opts;
  V_DECL(int, n); V_ASSUME(1 <= n && n <= 4);
  V_DECL(int, c0); V_DECL(int, c1); V_DECL(int, c2); V_DECL(int, c3); V_DECL(int, c4);
  int cs[5] = {c0, c1, c2, c3, c4};
  for (int i = 0; i < 5; i++) { V_ASSUME(cs[i] == 'a' || cs[i] == '.' || cs[i] == '/'); name[i] = i < n ? (char)cs[i] : 0; }
  name[5] = 0;
  V_DECL(int, which_base); current_file = which_base ? base1 : base2;
  int fd = V_STATIC(lex_c, inc_open)(buf, name);
  V_ASSERT(fd == -1, "nothing is opened in this harness (every open is refused by the stub)");
  V_COVER(G_opens == 1 && n == 4); V_COVER(G_opens == 0);
}
