/*@harness
{"tier":"quick","mode":"bounded(approved names of at most 6 characters, every content; trailing-slash stripping and directory-target join exercised)","tus":["lib/efuns/file_utils.c"],"dfcc":false,
 "functions":["do_rename"],
 "stub_out":["check_valid_path","file_utils.c:do_move","file_size"],
 "flags":["--bounds-check","--pointer-check"],"unwind":10,"timeout":900,
 "expect":["do_move.assertion","check_valid_path.assertion","h_sinks_do_rename.assertion"],
 "native":null,
 "assumptions":["check_valid_path replaced by a contract stub returning the approved source / target strings (arbitrary content, possibly different from what the caller passed: the master may rewrite)",
                "do_move (the rename/symlink/copy sink) and file_size are stubs; snprintf/strrchr are small reference models"],
 "notes":"sink provenance for rename/link: what reaches the file system is derived from the APPROVED strings only: source = approved source minus trailing slashes, target = approved target or approved target + '/' + last component of that source"}
@*/
#include "c15_env.h"
#include <stdarg.h>
object_t *current_object; static object_t G_me; svalue_t apply_ret_value;
#define L 7
static char G_from[L], G_to[L], G_raw_from[L], G_raw_to[L];
static int G_checks, G_grant1, G_grant2, G_moves; static const char *G_join_to, *G_join_cp; static char *G_join_dst;
void assign_svalue(svalue_t *d, svalue_t *s) { }
void error(const char *fmt, ...) { V_STOP(); }
char *check_valid_path(const char *path, object_t *o, const char *fn, int w) {
  V_ASSERT(o == current_object && w == 1 && v_streq(fn, "rename"), "rename/link ask for write access on both names");
  G_checks++;
  if (G_checks == 1) { V_ASSERT(path == (const char *)G_raw_from, "the first check is on the source name"); return G_grant1 ? &G_from[0] : (char *)0; }
  V_ASSERT(G_checks == 2 && path == (const char *)G_raw_to, "the second check is on the target name"); return G_grant2 ? &G_to[0] : (char *)0;
}
int file_size(char *f) { V_DECL(int, is_dir); return is_dir ? -2 : 5; }
char *strrchr(const char *s, int c) { const char *r = 0; for (int i = 0; i < 3 * L && s[i]; i++) if (s[i] == (char)c) r = s + i; return (char *)r; }
int snprintf(char *d, size_t n, const char *fmt, ...) {
  va_list ap; va_start(ap, fmt); const char *a = va_arg(ap, const char *); const char *b = va_arg(ap, const char *); va_end(ap);
  V_ASSERT(v_streq(fmt, "%s/%s"), "directory target is joined as <target>/<name>"); G_join_dst = d; G_join_to = a; G_join_cp = b; d[0] = 'j'; d[1] = 0; return 3; }
int sprintf(char *d, const char *fmt, ...) { d[0] = '.'; d[1] = '/'; d[2] = 0; return 2; }
/* oracle: s must be the approved source with its trailing slashes removed (a single "/" or a 1-char name stays) */
static int is_stripped_approved_source(const char *s) {
  int n = 0; while (n < L && G_from[n]) n++;
  int m = n; if (n > 1 && G_from[n - 1] == '/') { m = n - 1; while (m > 1 && G_from[m - 1] == '/') m--; }
  for (int i = 0; i < L; i++) { if (i < m) { if (s[i] != G_from[i]) return 0; } else return s[i] == 0; }
  return 0;
}
int V_STATIC(file_utils_c, do_move)(char *from, char *to, int flag) {
  if (G_moves < 10) G_moves++;
  V_ASSERT(G_checks == 2 && G_grant1 && G_grant2, "the file system is reached only after both names were approved");
  V_ASSERT(is_stripped_approved_source(from), "the source handed to rename/link is the APPROVED source (trailing slashes removed), not the caller's raw argument");
  int direct = (to == &G_to[0]);
  int dot = (to[0] == '.' && to[1] == '/' && to[2] == 0 && G_to[0] == 0);
  int join_base_ok = G_join_to == (const char *)G_to || (G_join_to != 0 && G_to[0] == 0 && G_join_to[0] == '.' && G_join_to[1] == '/' && G_join_to[2] == 0);
  int joined = (to == G_join_dst && join_base_ok && G_join_cp >= (const char *)from && G_join_cp < (const char *)from + L);
  V_ASSERT(direct || dot || joined, "the target handed to rename/link is the APPROVED target, or the approved target joined with the last component of the approved source");
  return 0;
}
int do_rename(char *fr, char *t, int flag);

void h_sinks_do_rename(void) {
  V_FILL(main_options_t, G_opts, opts); g_main_options = &G_opts; current_object = &G_me;
  struct s7 { char b[L]; }; struct s7 nondet_s7(void);
  { struct s7 a = nondet_s7(), b = nondet_s7(), c = nondet_s7(), d = nondet_s7(); memcpy(G_from, a.b, L); memcpy(G_to, b.b, L); memcpy(G_raw_from, c.b, L); memcpy(G_raw_to, d.b, L); }
  G_from[L - 1] = 0; G_to[L - 1] = 0; G_raw_from[L - 1] = 0; G_raw_to[L - 1] = 0;
  V_DECL(int, g1); V_DECL(int, g2); V_DECL(int, flag); G_grant1 = g1 != 0; G_grant2 = g2 != 0;
  int r = do_rename(G_raw_from, G_raw_to, flag);
  V_ASSERT((G_grant1 && G_grant2) || G_moves == 0, "a refused name never reaches rename/link");
  V_ASSERT(G_checks >= 1 && G_checks <= 2, "the master is consulted for the source, and for the target when the source was approved");
  V_COVER(G_moves == 1 && G_from[1] == '/' && G_from[2] == 0 && G_from[0] != '/'); V_COVER(G_moves == 1 && G_join_dst != 0); V_COVER(G_moves == 0 && r == 1);
}
