/*@harness
{"tier":"quick","mode":"width","tus":["lib/efuns/file_utils.c"],"dfcc":false,
 "functions":["tail","remove_file","write_file","read_file","read_bytes","write_bytes","file_size"],
 "stub_out":["check_valid_path"],
 "flags":["--bounds-check","--pointer-check"],"unwind":70,"timeout":900,
 "expect":["fopen.assertion","open.assertion","stat.assertion","unlink.assertion","check_valid_path.assertion"],
 "native":null,
 "assumptions":["check_valid_path replaced by a contract stub returning the approved string G_ok or 0 (its contract is enforced by harness check_valid_path)",
                "every file-system entry point of libc reachable from these efuns is a sink stub asserting its path argument is the approved string; everything behind the first sink is inert (fstat/fdopen/fread fail), so the data loops behind it are not reached: the obligation sits at the sink"],
 "notes":"sink provenance: 'the file system is touched only at the approved path, with write approval for writing sinks'"}
@*/
#include "c15_env.h"
#include <sys/stat.h>
#include <fcntl.h>
#include <stdio.h>
object_t *current_object; static object_t G_me;
static char G_ok[32]; static int G_checks, G_ok_write, G_granted; static const char *G_req;
static const char *G_expected_op; static int G_expected_write;
static int G_sinks;
int config_int[NUM_CONFIG_INTS];

char *check_valid_path(const char *path, object_t *call_object, const char *call_fun, int writeflg) {
  V_ASSERT(call_object == current_object, "the efun asks on behalf of the calling object");
  V_ASSERT(v_streq(call_fun, G_expected_op) && (writeflg != 0) == G_expected_write, "the master is told the right operation name and access kind");
  if (G_checks < 100) G_checks++;
  G_ok_write = writeflg != 0;
  V_DECL(int, granted); G_granted = granted != 0;
  return G_granted ? &G_ok[0] : (char *)0;
}
#define SINK(p, needs_write, what) do { if (G_sinks < 100) G_sinks++; \
  V_ASSERT(G_checks == 1 && G_granted && (p) == (const char *)G_ok, what ": path is the string the master approved"); \
  V_ASSERT(!(needs_write) || G_ok_write, what ": write access was what the master approved"); } while (0)
FILE *fopen(const char *p, const char *mode) { SINK(p, mode[0] != 'r' || mode[1] == '+', "fopen"); V_DECL(int, fopen_ok); return fopen_ok ? (FILE *)malloc(8) : 0; }
int open(const char *p, int flags, ...) { SINK(p, (flags & (O_WRONLY | O_RDWR | O_CREAT | O_TRUNC)) != 0, "open"); V_DECL(int, open_fd); return open_fd >= 3 ? open_fd : -1; }
int stat(const char *p, struct stat *st) { SINK(p, 0, "stat"); V_DECL(int, stat_ret); return stat_ret ? -1 : 0; }
int lstat(const char *p, struct stat *st) { SINK(p, 0, "lstat"); return -1; }
int unlink(const char *p) { SINK(p, 1, "unlink"); V_DECL(int, unlink_ret); return unlink_ret ? -1 : 0; }
int rename(const char *a, const char *b) { V_ASSERT(0, "rename is not expected from these efuns"); return -1; }
int mkdir(const char *p, mode_t m) { V_ASSERT(0, "mkdir is not expected from these efuns"); return -1; }
int rmdir(const char *p) { V_ASSERT(0, "rmdir is not expected from these efuns"); return -1; }
int truncate(const char *p, off_t l) { V_ASSERT(0, "truncate is not expected from these efuns"); return -1; }
int symlink(const char *a, const char *b) { V_ASSERT(0, "symlink is not expected from these efuns"); return -1; }
int link(const char *a, const char *b) { V_ASSERT(0, "link is not expected from these efuns"); return -1; }
void *opendir(const char *p) { V_ASSERT(0, "opendir is not expected from these efuns"); return 0; }
/* strncpy into the PATH_MAX-sized local copy: CBMC's model needs 4095 unwindings; the requested names here are 16 bytes */
char *strncpy(char *d, const char *s, size_t n) { V_ASSERT(n >= 16, "strncpy bound"); for (int i = 0; i < 16; i++) d[i] = s[i]; return d; }
/* everything behind the sink: inert */
int fstat(int fd, struct stat *st) { return -1; }
int fileno(FILE *f) { return 3; }
FILE *fdopen(int fd, const char *m) { return 0; }
int close(int fd) { return 0; }
int fclose(FILE *f) { return 0; }
size_t fwrite(const void *p, size_t a, size_t b, FILE *f) { return 0; }
size_t fread(void *p, size_t a, size_t b, FILE *f) { return 0; }
int fseek(FILE *f, long o, int w) { return -1; }
void fatal(const char *fmt, ...) { V_STOP(); }
void error(const char *fmt, ...) { V_STOP(); }
int debug_perror_with_src(const char *a, const char *b, int c, const char *d, const char *e) { return 0; }

int tail(char *path); int remove_file(char *path); int write_file(char *file, char *str, int flags);
char *read_file(const char *path, long start, size_t len); char *read_bytes(const char *file, long start, size_t len, size_t *rlen);
int write_bytes(char *file, long start, char *str, size_t theLength); int file_size(char *file);

void h_sinks_file_utils(void) {
  static char req[16] = "some/file"; static char data[4] = "abc";
  V_FILL(main_options_t, G_opts, opts); g_main_options = &G_opts;
  current_object = &G_me; G_req = req;
  { V_DECL(int, mbt); V_DECL(int, mrf); config_int[__MAX_BYTE_TRANSFER__ - BASE_CONFIG_INT] = mbt; config_int[__MAX_READ_FILE_SIZE__ - BASE_CONFIG_INT] = mrf; }
  V_DECL(int, which); V_DECL(long, start); V_DECL(size_t, len); V_DECL(int, flags); size_t rlen;
  switch (which) {
    case 0: G_expected_op = "tail"; G_expected_write = 0; tail(req); break;
    case 1: G_expected_op = "remove_file"; G_expected_write = 1; remove_file(req); break;
    case 2: G_expected_op = "write_file"; G_expected_write = 1; write_file(req, data, flags); break;
    case 3: G_expected_op = "read_file"; G_expected_write = 0; read_file(req, start, len); break;
    case 4: G_expected_op = "read_bytes"; G_expected_write = 0; read_bytes(req, start, len, &rlen); break;
    case 5: G_expected_op = "write_bytes"; G_expected_write = 1; write_bytes(req, start, data, 3); break;
    default: G_expected_op = "file_size"; G_expected_write = 0; file_size(req); break;
  }
  V_ASSERT(G_checks == 1, "every file efun consults check_valid_path exactly once");
  V_ASSERT(G_granted || G_sinks == 0, "a refused path never reaches the file system");
  V_COVER(which == 0 && G_sinks == 1); V_COVER(which == 1 && G_sinks == 1); V_COVER(which == 2 && G_sinks == 1); V_COVER(which == 3 && G_sinks == 1);
  V_COVER(which == 4 && G_sinks == 1); V_COVER(which == 5 && G_sinks == 1); V_COVER(which == 6 && G_sinks == 1);
}
