/*@harness
{"tier":"quick","mode":"width","tus":["lib/efuns/file_utils.c"],"dfcc":false,"functions":["check_valid_path"],"stub_out":["legal_path"],
 "flags":["--bounds-check","--pointer-check"],"timeout":600,
 "expect":["h_check_valid_path.assertion","apply_master_ob.assertion","check_valid_path.pointer_dereference"],
 "native":{},
 "assumptions":["apply_master_ob stub: pops 3 arguments, answers -1 / NULL / number / string (master policy arbitrary)",
                "legal_path replaced by a contract stub (records its argument, answers 0/1); its own behaviour is decided by harness legal_path",
                "string_copy stub returns a fresh copy object; stack primitives are stubs"]}
@*/
#include "c15_env.h"
static svalue_t G_stack[8]; svalue_t *sp; svalue_t apply_ret_value;
static int G_master_calls, G_master_write, G_master_read, G_master_args_ok, G_master_kind;
static svalue_t G_ret_sv; static svalue_t *G_master_ret;
static const char *G_path, *G_fun; static object_t *G_caller;
static char G_copy[16]; static int G_copies; static char G_master_str[16];
static const char *G_legal_arg; static int G_legal_calls, G_legal_ret;
static char *G_pushed_copy;

void copy_and_push_string(const char *s) { V_ASSERT(s == G_path, "the path given to the efun is what the master is shown"); sp++; sp->type = T_STRING; sp->u.string = (char *)s; }
void push_object(object_t *ob) { sp++; sp->type = T_OBJECT; sp->u.ob = ob; }
void push_constant_string(const char *s) { sp++; sp->type = T_STRING; sp->u.string = (char *)s; }
void free_svalue(svalue_t *v, const char *c) { }
char *int_string_copy(const char *s) { V_ASSERT(s == G_path, "the fallback path is a copy of the requested path"); if (G_copies < 100) G_copies++; return G_copy; }
int legal_path(const char *p) { G_legal_arg = p; if (G_legal_calls < 100) G_legal_calls++; V_DECL(int, legal_ret); G_legal_ret = legal_ret != 0; return G_legal_ret; }
svalue_t *apply_master_ob(const char *fun, int num_arg) {
  if (G_master_calls < 100) G_master_calls++;
  G_master_write = v_streq(fun, APPLY_VALID_WRITE); G_master_read = v_streq(fun, APPLY_VALID_READ);
  V_ASSERT(num_arg == 3 && sp == &G_stack[3], "valid_read/valid_write is applied with three arguments");
  G_master_args_ok = (sp[-2].type == T_STRING && sp[-2].u.string == G_path && sp[-1].type == T_OBJECT && sp[-1].u.ob == G_caller && sp[0].type == T_STRING && sp[0].u.string == G_fun);
  sp -= num_arg;
  V_DECL(int, master_kind); V_DECL(int64_t, master_num); G_master_kind = master_kind;
  if (master_kind == 0) G_master_ret = (svalue_t *)-1;
  else if (master_kind == 1) G_master_ret = 0;
  else if (master_kind == 2) { G_ret_sv.type = T_NUMBER; G_ret_sv.u.number = master_num; G_master_ret = &G_ret_sv; }
  else { G_ret_sv.type = T_STRING; G_ret_sv.u.string = G_master_str; G_master_ret = &G_ret_sv; }
  return G_master_ret;
}
#define C15_DENIED (G_master_ret != 0 && G_master_ret != (svalue_t *)-1 && G_master_ret->type == T_NUMBER && G_master_ret->u.number == 0)
#define C15_REWRITE (G_master_ret != 0 && G_master_ret != (svalue_t *)-1 && G_master_ret->type == T_STRING)
/* base = the string the master approved: its own rewrite, or (a copy of) the requested path */
#define C15_BASE (C15_REWRITE ? (char *)&G_master_str[0] : (char *)&G_copy[0])

/* The contract of check_valid_path, enforced in "light" style (plain CBMC: the function is loop-free, requires are
   the harness set-up, ensures are the assertions after the call).  goto-instrument 6.11 --enforce-contract hits an
   internal invariant (std_expr.cpp instantiate) on this 4-parameter signature, so the dfcc wrapper is not used. */
void h_check_valid_path(void) {
  static object_t caller; static char path[16]; static char fun[] = "read_file";
  V_FILL(object_t, caller, caller); V_FILL(main_options_t, G_opts, opts); g_main_options = &G_opts;
  struct s16 { char b[16]; };
  { struct s16 nondet_s16(void); struct s16 a = nondet_s16(), b = nondet_s16(), c = nondet_s16();
    memcpy(path, a.b, 16); memcpy(G_copy, b.b, 16); memcpy(G_master_str, c.b, 16); }
  path[15] = 0; G_copy[15] = 0; G_master_str[15] = 0;
  V_DECL(int, has_caller); V_DECL(int, wf);
  G_path = path; G_fun = fun; G_caller = has_caller ? &caller : 0; sp = &G_stack[0];
  char *r = check_valid_path(path, G_caller, fun, wf);
  object_t *call_object = G_caller; int writeflg = wf;
  V_ASSERT(!(call_object == 0 || (call_object->flags & O_DESTRUCTED)) || (r == 0 && G_master_calls == 0),
           "check_valid_path: no caller or a destructed caller is refused without consulting the master");
  V_ASSERT((call_object == 0 || (call_object->flags & O_DESTRUCTED)) || (G_master_calls == 1 && G_master_args_ok && (writeflg ? G_master_write : G_master_read)),
           "check_valid_path: the master is asked exactly once, valid_write iff writing, with (path, caller, operation)");
  V_ASSERT(!(G_master_calls == 1 && C15_DENIED) || r == 0, "check_valid_path: an answer of 0 from the master is a refusal");
  V_ASSERT(r == 0 || (G_master_calls == 1 && !C15_DENIED), "check_valid_path: whatever is returned was approved by the master");
  V_ASSERT(r == 0 || (G_legal_calls == 1 && G_legal_ret == 1), "check_valid_path: whatever is returned passed legal_path");
  V_ASSERT(r == 0 || G_legal_arg == r, "check_valid_path: the string checked by legal_path is the string returned");
  V_ASSERT(r == 0 || (C15_BASE[0] == '/' ? (C15_BASE[1] != 0 && r == C15_BASE + 1) : (C15_BASE[0] != 0 && r == C15_BASE))
           || ((C15_BASE[0] == 0 || (C15_BASE[0] == '/' && C15_BASE[1] == 0)) && r[0] == '.' && r[1] == 0),
           "check_valid_path: the result is the approved string (master rewrite or the requested path) minus one leading '/', or \".\"");
  V_ASSERT(sp == &G_stack[0], "check_valid_path: value stack balanced");
  V_COVER(r != 0 && r == G_master_str + 1); V_COVER(r != 0 && r == G_copy); V_COVER(r == 0 && G_legal_calls == 1); V_COVER(r != 0 && r[0] == '.' && r != G_copy && r != G_master_str);
}
