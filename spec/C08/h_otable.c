/*@harness
{"tier":"quick","mode":"bounded(3 objects, 3 names, one hash bucket, any sequence of 4 enter/remove/lookup operations)","tus":["lib/lpc/otable.c"],"include_tu":true,"dfcc":false,
 "functions":["enter_object_hash","remove_object_hash","lookup_object_hash","find_obj_n"],
 "flags":["--bounds-check","--pointer-check"],"unwind":5,"timeout":900,
 "expect":["h_otable.assertion","find_obj_n.pointer_dereference"],
 "native":{"rename":["whashstr"]},
 "assumptions":["whashstr stub: every name hashes to the same bucket (worst case for the chain surgery)","names are 1-character strings (strcmp: CBMC model)",
                "remove_object_hash is only called for an object that is in the table (its caller destruct_object guarantees it)"],
 "notes":"name table contract on a small population: a lookup yields exactly the live object carrying the name, move-to-front keeps the set, entering never creates a duplicate name, removing takes out exactly that object"}
@*/
#ifndef V_NATIVE
#include "otable.c"       /* scratch copy: the table is file-static */
#endif
#include "vharness.h"
#include "src/main.h"
main_options_t *g_main_options; static main_options_t G_opts;
int debug_message_with_src(const char *a, const char *b, const char *c, int d, const char *e, ...) { return 0; }
int debug_message(const char *f, ...) { return 0; }
void fatal(const char *f, ...) { V_STOP(); }
int whashstr(const char *s, int maxn) { return 0; }
static object_t O0, O1, O2; static object_t *const OP[3] = {&O0, &O1, &O2};
static char N0[2], N1[2], N2[2]; static object_t *G_bucket[1];
static int present[3];
static int chain_count(object_t *ob) { int c = 0, k = 0; for (object_t *p = obj_table[0]; p && k < 5; p = p->next_hash, k++) if (p == ob) c++; return c; }
static int chain_len(void) { int k = 0; for (object_t *p = obj_table[0]; p && k < 5; p = p->next_hash) k++; return k; }
static void check_table(void) {
  int n = 0;
  for (int i = 0; i < 3; i++) { V_ASSERT(chain_count(OP[i]) == (present[i] ? 1 : 0), "an object is in its hash chain exactly once iff it was entered and not removed"); n += present[i]; }
  V_ASSERT(chain_len() == n && objs_in_table == n, "the chain holds exactly the live objects (no stale or duplicated entries)");
  for (int i = 0; i < 3; i++) for (int j = 0; j < 3; j++) if (i < j) V_ASSERT(!(present[i] && present[j] && OP[i]->name[0] == OP[j]->name[0]), "no two objects in the table carry the same name");
}
void h_otable(void) {
  V_FILL(main_options_t, G_opts, opts); g_main_options = &G_opts;
  obj_table = G_bucket; otable_size = 1; otable_size_minus_one = 0; objs_in_table = 0; G_bucket[0] = 0;
  V_DECL(char, n0); V_DECL(char, n1); V_DECL(char, n2);
  V_ASSUME((n0 == 'a' || n0 == 'b' || n0 == 'c') && (n1 == 'a' || n1 == 'b' || n1 == 'c') && (n2 == 'a' || n2 == 'b' || n2 == 'c'));
  N0[0] = n0; N1[0] = n1; N2[0] = n2; O0.name = N0; O1.name = N1; O2.name = N2;
  for (int step = 0; step < 4; step++) {
    V_DECL(int, op); V_DECL(int, who); V_DECL(char, q);
    V_ASSUME(0 <= op && op <= 2 && 0 <= who && who < 3 && (q == 'a' || q == 'b' || q == 'c'));
    if (op == 0) {                      /* load / clone: enter */
      int dup = 0; for (int j = 0; j < 3; j++) if (present[j] && OP[j]->name[0] == OP[who]->name[0]) dup = 1;
      enter_object_hash(OP[who]);
      if (!dup) present[who] = 1;
    } else if (op == 1) {               /* destruct: remove */
      if (present[who]) { remove_object_hash(OP[who]); present[who] = 0; V_ASSERT(OP[who]->next_hash == 0, "a removed object is unlinked"); }
    } else {                            /* find_object */
      char qs[2] = {q, 0};
      object_t *r = lookup_object_hash(qs);
      object_t *want = 0; for (int j = 0; j < 3; j++) if (present[j] && OP[j]->name[0] == q) want = OP[j];
      V_ASSERT(r == want, "looking up a name yields exactly the live object carrying it, and nothing for a name no live object carries");
      V_ASSERT(!r || obj_table[0] == r, "a found object is moved to the front of its chain");
    }
    check_table();
  }
  V_COVER(present[0] && present[1] && present[2]); V_COVER(!present[0] && chain_len() == 2);
}
