/*@harness
{"tier":"quick","mode":"bounded(population of 3 objects in the all-objects list, the victim optionally inside an environment with one sibling; flags of every object symbolic; no inventory, not the master / simul_efun object)","tus":["src/simulate.c"],"dfcc":false,
 "functions":["destruct_object"],
 "stub_out":["fatal","load_object","move_object","simulate.c:remove_sent","set_master","error"],
 "flags":["--bounds-check","--pointer-check"],"unwind":6,"timeout":900,
 "expect":["h_destruct_object.assertion","set_heart_beat.assertion","destruct_object.pointer_dereference"],
 "native":null,
 "assumptions":["callees are stubs: remove_object_hash / remove_living_name / set_heart_beat / remove_interactive / remove_sent / free_sentence record their calls; set_heart_beat(ob, 0) behaves as the real one: it ignores an object already flagged O_DESTRUCTED, otherwise clears O_HEART_BEAT",
                "the victim has no inventory (the recursive move-or-destruct of contents is not followed) and is not a vital object (master / simul_efun reload path not followed)"],
 "notes":"C08 after destruct(ob): ob is flagged destructed, no longer in the name table, the all-objects list, its environment's inventory or the heart-beat list, and is queued exactly once for deallocation; the other objects are untouched"}
@*/
#ifdef HAVE_CONFIG_H
#include <config.h>
#endif
#include "src/std.h"
#include "lpc/types.h"
#include "lpc/object.h"
#include "src/interpret.h"
#include "src/comm.h"
#include "rc.h"
#include "src/main.h"
#include "vharness.h"
main_options_t *g_main_options; static main_options_t G_opts;
object_t *master_ob, *simul_efun_ob, *current_object, *command_giver; svalue_t apply_ret_value, const0, const1; svalue_t *sp;
int g_proceeding_shutdown; interactive_t **all_users; int max_users; char *config_str[NUM_CONFIG_STRS];
static svalue_t G_stk[8];
static object_t O0, O1, O2, ENV; static object_t *const OP[3] = {&O0, &O1, &O2};
static int G_hash_removed, G_hb_calls, G_hb_effective, G_living_removed, G_interactive_removed, G_errors;
void error(const char *f, ...) { if (G_errors < 10) G_errors++; V_STOP(); }
void fatal(char *f, ...) { V_STOP(); }
int debug_message_with_src(const char *a, const char *b, const char *c, int d, const char *e, ...) { return 0; }
void close_referencing_sockets(object_t *ob) { }
void remove_object_from_stack(object_t *ob) { }
void free_svalue(svalue_t *v, const char *w) { }
void move_object(object_t *a, object_t *b) { V_UNREACHABLE_STUB("move_object"); V_STOP(); }
svalue_t *apply(const char *f, object_t *o, int n, int origin) { V_UNREACHABLE_STUB("apply"); V_STOP(); return 0; }
void push_object(object_t *o) { V_UNREACHABLE_STUB("push_object"); V_STOP(); }
void push_number(int64_t n) { V_UNREACHABLE_STUB("push_number"); V_STOP(); }
void object_save_ed_buffer(object_t *o) { }
void V_STATIC(simulate_c, remove_sent)(object_t *a, object_t *b) { }
void free_sentence(sentence_t *s) { }
void remove_living_name(object_t *o) { if (G_living_removed < 10) G_living_removed++; }
void remove_interactive(object_t *o, int d) { if (G_interactive_removed < 10) G_interactive_removed++; }
void remove_object_hash(object_t *o) { V_ASSERT(o == &O0, "only the destructed object leaves the name table"); if (G_hash_removed < 10) G_hash_removed++; }
object_t *load_object(const char *n, const char *f) { V_UNREACHABLE_STUB("load_object"); V_STOP(); return 0; }
void set_master(object_t *o) { V_UNREACHABLE_STUB("set_master"); V_STOP(); }
void set_simul_efun(object_t *o) { V_UNREACHABLE_STUB("set_simul_efun"); V_STOP(); }
int strip_name(const char *a, char *b, size_t n) { V_UNREACHABLE_STUB("strip_name"); V_STOP(); return 0; }
/* contract stub of set_heart_beat (src/backend.c): a destructed object is ignored */
int set_heart_beat(object_t *ob, int to) {
  if (G_hb_calls < 10) G_hb_calls++;
  V_ASSERT(ob == &O0 && to == 0, "destruct switches off the heart beat of the destructed object only");
  if (ob->flags & O_DESTRUCTED) return 0;
  ob->flags &= ~O_HEART_BEAT; G_hb_effective = 1;
  return 1;
}
void destruct_object(object_t *ob);
static int in_all_list(object_t *o) { int k = 0; for (object_t *p = obj_list; p && k < 5; p = p->next_all, k++) if (p == o) return 1; return 0; }
static int in_inventory(object_t *env, object_t *o) { int k = 0; for (object_t *p = env->contains; p && k < 5; p = p->next_inv, k++) if (p == o) return 1; return 0; }

void h_destruct_object(void) {
  static char n0[] = "a", n1[] = "b", n2[] = "c", ne[] = "e";
  V_FILL(main_options_t, G_opts, opts); g_main_options = &G_opts;
  sp = &G_stk[2];
  V_DECL(v_ushort, f0); V_DECL(v_ushort, f1); V_DECL(v_ushort, f2); V_DECL(int, pos); V_DECL(int, has_env); V_DECL(int, sib_first); V_DECL(int, living);
  V_ASSUME(0 <= pos && pos <= 2);
  O0.name = n0; O1.name = n1; O2.name = n2; ENV.name = ne;
  O0.flags = f0 & ~(O_DESTRUCTED | O_EFUN_SOCKET); O1.flags = f1 & ~O_DESTRUCTED; O2.flags = f2 & ~O_DESTRUCTED; ENV.flags = 0;
  O0.living_name = living ? &n0[0] : (char *)0;
  /* the all-objects list holds the three objects, the victim O0 at any position */
  object_t *a = pos == 0 ? &O0 : &O1, *b = pos == 1 ? &O0 : (pos == 0 ? &O1 : &O2), *c = pos == 2 ? &O0 : &O2;
  obj_list = a; a->next_all = b; b->next_all = c; c->next_all = 0; obj_list_destruct = 0;
  if (has_env) {           /* O0 and its sibling O1 share the environment ENV */
    O0.super = &ENV; O1.super = &ENV;
    if (sib_first) { ENV.contains = &O1; O1.next_inv = &O0; O0.next_inv = 0; } else { ENV.contains = &O0; O0.next_inv = &O1; O1.next_inv = 0; }
  }
  V_COVER(has_env && sib_first && pos == 1 && (O0.flags & O_HEART_BEAT));
  destruct_object(&O0);
  V_ASSERT(O0.flags & O_DESTRUCTED, "the object is flagged destructed");
  V_ASSERT(G_hash_removed == 1, "it is taken out of the name table exactly once");
  V_ASSERT(!in_all_list(&O0) && in_all_list(&O1) && in_all_list(&O2), "it leaves the all-objects list, the other objects stay");
  V_ASSERT(obj_list_destruct == &O0 && O0.next_all == 0, "it is queued exactly once for deallocation");
  V_ASSERT(O0.super == 0 && O0.next_inv == 0 && O0.contains == 0 && (!has_env || (!in_inventory(&ENV, &O0) && in_inventory(&ENV, &O1))), "it leaves its environment's inventory, its sibling stays");
  V_ASSERT(G_hb_calls == 1 && G_hb_effective && !(O0.flags & O_HEART_BEAT), "its heart beat is switched off - while set_heart_beat() still accepts the object");
  V_ASSERT(!(O0.flags & O_ENABLE_COMMANDS), "it no longer accepts commands");
  V_ASSERT(G_living_removed == (living ? 1 : 0), "its living name is removed iff it had one");
  V_ASSERT((O1.flags == (unsigned short)(f1 & ~O_DESTRUCTED)) && (O2.flags == (unsigned short)(f2 & ~O_DESTRUCTED)), "the flags of the other objects are untouched");
}
