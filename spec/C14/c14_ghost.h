/* ghost state and predicates shared by the C14 contracts, the injected loop
   invariants (this file is #included into the scratch copy of src/comm.c) and
   the native replay twin.  Plain C only. */
#ifndef C14_GHOST_H
#define C14_GHOST_H
#define C14_N 4096 /* must equal MESSAGE_BUF_SIZE: checked by a static assertion in every harness */
#define C14_RING(ip) (0 <= (ip)->message_consumer && (ip)->message_consumer < C14_N && \
                      0 <= (ip)->message_producer && (ip)->message_producer < C14_N && \
                      0 <= (ip)->message_length && (ip)->message_length <= C14_N && \
                      (ip)->message_producer == ((ip)->message_consumer + (ip)->message_length) % C14_N)
extern long G_sent;       /* bytes the socket accepted since harness start */
extern int G_errno;       /* model of errno */
extern int G_send_calls;  /* saturating */
extern int G_mod_mask;    /* last event mask given to async_runtime_modify, -1 = never called */
extern int G_mod_calls;
#endif
