/* ghost state and predicates shared by the C14 contracts, the injected loop
   invariants (this file is #included into the scratch copy of src/comm.c) and
   the native replay twin.  Plain C only. */
#ifndef C14_GHOST_H
#define C14_GHOST_H
#define C14_N 4096 /* must equal MESSAGE_BUF_SIZE: checked by a static assertion in every harness */
#define C14_RING(ip) (0 <= (ip)->message_consumer && (ip)->message_consumer < C14_N && \
                      0 <= (ip)->message_producer && (ip)->message_producer < C14_N && \
                      0 <= (ip)->message_length && (ip)->message_length <= C14_N && \
                      (ip)->message_producer == ((ip)->message_consumer + (ip)->message_length) % C14_N)
extern long G_sent;       /* bytes the socket accepted since harness start */
extern int G_errno;       /* model of errno */
extern int G_send_calls;  /* saturating */
extern int G_mod_mask;    /* last event mask given to async_runtime_modify, -1 = never called */
extern int G_mod_calls;
/* add_message / add_vmessage ghost stream view: every byte appended to the ring gets the next
   sequence number G_app; two arbitrary source positions G_g1 < G_g2 are tracked */
extern long G_app;                 /* bytes appended to the ring since entry */
extern long G_n;                   /* data[G_n] == 0 */
extern long G_g1, G_g2;            /* tracked source positions, G_g1 < G_g2 */
extern int G_st1, G_st2;           /* data[G_gk] was appended */
extern long G_seq1, G_seq2;        /* sequence number it got */
extern int G_crok1, G_crok2;       /* if data[G_gk]=='\n', the byte appended just before it was '\r' */
extern int G_val1, G_val2;         /* byte value appended for it */
extern int G_early;                /* the copy loop was left through a break (ring full) */
extern int G_len_at_break;
extern long G_endoff;              /* offset of cp when the copy loop was left, -1: function returned from inside it */
extern int G_lastbyte;             /* last byte appended, -1 none */
#define C14_TRACK(i, byte) do { \
    if ((i) == G_g1) { G_st1 = 1; G_seq1 = G_app; G_val1 = (unsigned char)(byte); G_crok1 = ((byte) != '\n') || G_lastbyte == '\r'; } \
    if ((i) == G_g2) { G_st2 = 1; G_seq2 = G_app; G_val2 = (unsigned char)(byte); G_crok2 = ((byte) != '\n') || G_lastbyte == '\r'; } \
  } while (0)
#endif
