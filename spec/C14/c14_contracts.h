/* C14 contracts and trusted stubs shared by the harnesses of this property */
#ifndef C14_CONTRACTS_H
#define C14_CONTRACTS_H
#ifdef HAVE_CONFIG_H
#include <config.h>
#endif
#include "std.h"
#include "lpc/object.h"
#include "comm.h"
#include "async/async_runtime.h"
#include "vharness.h"
#include "c14_ghost.h"

_Static_assert(C14_N == MESSAGE_BUF_SIZE, "ghost ring size");
#define C14_GSENT_MAX (1L << 40)

long G_sent; int G_errno; int G_send_calls; int G_mod_mask = -1; int G_mod_calls;
static interactive_t *G_ip;
V_NONDET_FN(interactive_t); V_NONDET_FN(object_t);

/* ---- contract: C14 for flush_message ---- */
int flush_message(interactive_t *ip)
__CPROVER_requires(ip == G_ip && C14_RING(ip) && all_users != 0 && 0 <= G_sent && G_sent <= C14_GSENT_MAX)
__CPROVER_assigns(ip->message_consumer, ip->message_length, ip->out_of_band, ip->iflags, inet_packets, inet_volume,
                  G_sent, G_send_calls, G_mod_mask, G_mod_calls, G_errno)
/* ghost accounting bound first (later clauses are evaluated under it) */
__CPROVER_ensures(G_sent >= __CPROVER_old(G_sent) && G_sent <= __CPROVER_old(G_sent) + __CPROVER_old(ip->message_length))
/* ring stays well formed */
__CPROVER_ensures(C14_RING(ip))
/* the consumer advanced by exactly what the socket accepted; nothing else of the ring moved */
__CPROVER_ensures(ip->message_consumer == (__CPROVER_old(ip->message_consumer) + (G_sent - __CPROVER_old(G_sent))) % C14_N)
__CPROVER_ensures(ip->message_length == __CPROVER_old(ip->message_length) - (G_sent - __CPROVER_old(G_sent)))
__CPROVER_ensures(ip->message_producer == __CPROVER_old(ip->message_producer))
/* 0 only for a dead / closing connection; NET_DEAD only set, never cleared, no other flag touched */
__CPROVER_ensures(__CPROVER_return_value == 0 || __CPROVER_return_value == 1)
__CPROVER_ensures(__CPROVER_return_value == 0 ==> (ip->iflags & (NET_DEAD | CLOSING)) != 0)
__CPROVER_ensures((ip->iflags | NET_DEAD) == (__CPROVER_old(ip->iflags) | NET_DEAD))
__CPROVER_ensures(__CPROVER_return_value == 1 ==> (ip->iflags == __CPROVER_old(ip->iflags) && (ip->iflags & (NET_DEAD | CLOSING)) == 0))
/* everything was sent unless the socket refused: returning 1 with bytes left means a would-block/EINTR result,
   and then write interest was requested (non-console user) */
__CPROVER_ensures((__CPROVER_return_value == 1 && ip->message_length != 0 && ip != all_users[0]) ==> (G_mod_mask == (EVENT_READ | EVENT_WRITE)))
__CPROVER_ensures((__CPROVER_return_value == 1 && ip->message_length == 0 && ip != all_users[0] && !(__CPROVER_old(ip->iflags) & (NET_DEAD | CLOSING))) ==> (G_mod_mask == EVENT_READ))
;

/* ---- trusted stubs ---- */
int *__errno_location(void) { return &G_errno; }

ssize_t send(int fd, const void *buf, size_t len, int flags) {
  V_ASSERT(buf == (const void *)(G_ip->message_buf + G_ip->message_consumer), "send starts at the oldest unsent byte");
  V_ASSERT(len >= 1 && len <= (size_t)G_ip->message_length, "send covers only queued bytes");
  V_ASSERT((size_t)G_ip->message_consumer + len <= C14_N, "send chunk is contiguous inside the ring");
  V_DECL(int, send_ret);
  V_ASSUME(send_ret == -1 || (send_ret >= 1 && (size_t)send_ret <= len));
  if (send_ret == -1) { V_DECL(int, send_errno); G_errno = send_errno; }
  else G_sent += send_ret;
  if (G_send_calls < 1000) G_send_calls++;
  return send_ret;
}
ssize_t write(int fd, const void *buf, size_t len) {
  V_ASSERT(fd == 1, "console write goes to stdout");
  return send(fd, buf, len, 0);
}
int async_runtime_modify(async_runtime_t *rt, socket_fd_t fd, uint32_t ev, void *ctx) {
  V_ASSERT(ctx == (void *)G_ip && fd == G_ip->fd, "write interest is changed for this connection only");
  G_mod_mask = (int)ev; if (G_mod_calls < 1000) G_mod_calls++; return 0;
}
int debug_message_with_src(const char *a, const char *b, const char *c, int d, const char *e, ...) { return 0; }

#endif
