/*@harness
{"tier":"quick","mode":"unbounded","tus":["src/comm.c"],"enforce":"flush_message",
 "flags":["--bounds-check","--pointer-check","--conversion-check"],
 "timeout":600,
 "ignore":[{"class":"overflow","text_contains":"inet_packets++","why":"statistics counter, not part of C14"},{"class":"overflow","text_contains":"inet_volume += num_bytes","why":"statistics counter, not part of C14"}],
 "expect":["flush_message.postcondition","flush_message.loop_invariant_step","send.assertion","flush_message.pointer_dereference","flush_message.assigns"],
 "native":{"rename":["send","write"]},
 "assumptions":["send/write stub: returns -1 (any errno) or 1..len"]}
@*/
/*@prelude file=src/comm.c after="^#include \"lpc/include/origin.h\""
#include "c14_ghost.h"
@*/
/*@loop file=src/comm.c function=flush_message match="while (ip->message_length != 0)"
__CPROVER_assigns(length, num_bytes, ip->message_consumer, ip->message_length, ip->out_of_band, inet_packets, inet_volume, G_sent, G_send_calls, G_errno, G_mod_mask, G_mod_calls)
__CPROVER_loop_invariant(C14_RING(ip))
__CPROVER_loop_invariant(0 <= G_sent && G_sent <= C14_N && G_sent + ip->message_length == __CPROVER_loop_entry(ip->message_length))
__CPROVER_loop_invariant(ip->message_consumer == (__CPROVER_loop_entry(ip->message_consumer) + G_sent) % C14_N)
__CPROVER_loop_invariant(G_mod_calls == 0)
__CPROVER_decreases(ip->message_length)
@*/
#ifdef HAVE_CONFIG_H
#include <config.h>
#endif
#include "std.h"
#include "lpc/object.h"
#include "comm.h"
#include "async/async_runtime.h"
#include "vharness.h"
#include "c14_ghost.h"

_Static_assert(C14_N == MESSAGE_BUF_SIZE, "ghost ring size");

long G_sent; int G_errno; int G_send_calls; int G_mod_mask = -1; int G_mod_calls;
static interactive_t *G_ip;
V_NONDET_FN(interactive_t);

/* ---- contract: C14 for flush_message ---- */
int flush_message(interactive_t *ip)
__CPROVER_requires(ip == G_ip && C14_RING(ip) && all_users != 0 && G_sent == 0 && G_mod_calls == 0)
__CPROVER_assigns(ip->message_consumer, ip->message_length, ip->out_of_band, ip->iflags, inet_packets, inet_volume,
                  G_sent, G_send_calls, G_mod_mask, G_mod_calls, G_errno)
/* ring stays well formed */
__CPROVER_ensures(C14_RING(ip))
/* the consumer advanced by exactly what the socket accepted; nothing else of the ring moved */
__CPROVER_ensures(ip->message_consumer == (__CPROVER_old(ip->message_consumer) + G_sent) % C14_N)
__CPROVER_ensures(ip->message_length == __CPROVER_old(ip->message_length) - G_sent)
__CPROVER_ensures(ip->message_producer == __CPROVER_old(ip->message_producer))
/* 0 only for a dead / closing connection; NET_DEAD only set, never cleared, no other flag touched */
__CPROVER_ensures(__CPROVER_return_value == 0 || __CPROVER_return_value == 1)
__CPROVER_ensures(__CPROVER_return_value == 0 ==> (ip->iflags & (NET_DEAD | CLOSING)) != 0)
__CPROVER_ensures((ip->iflags | NET_DEAD) == (__CPROVER_old(ip->iflags) | NET_DEAD))
/* everything was sent unless the socket refused: returning 1 with bytes left means a would-block/EINTR result,
   and then write interest was requested (non-console user) */
__CPROVER_ensures((__CPROVER_return_value == 1 && ip->message_length != 0 && ip != all_users[0]) ==> (G_mod_mask == (EVENT_READ | EVENT_WRITE)))
__CPROVER_ensures((__CPROVER_return_value == 1 && ip->message_length == 0 && ip != all_users[0] && !(__CPROVER_old(ip->iflags) & (NET_DEAD | CLOSING))) ==> (G_mod_mask == EVENT_READ))
;

/* ---- trusted stubs ---- */
int *__errno_location(void) { return &G_errno; }

ssize_t send(int fd, const void *buf, size_t len, int flags) {
  V_ASSERT(buf == (const void *)(G_ip->message_buf + G_ip->message_consumer), "send starts at the oldest unsent byte");
  V_ASSERT(len >= 1 && len <= (size_t)G_ip->message_length, "send covers only queued bytes");
  V_ASSERT((size_t)G_ip->message_consumer + len <= C14_N, "send chunk is contiguous inside the ring");
  V_DECL(int, send_ret);
  V_ASSUME(send_ret == -1 || (send_ret >= 1 && (size_t)send_ret <= len));
  if (send_ret == -1) { V_DECL(int, send_errno); G_errno = send_errno; }
  else G_sent += send_ret;
  if (G_send_calls < 1000) G_send_calls++;
  return send_ret;
}
ssize_t write(int fd, const void *buf, size_t len) {
  V_ASSERT(fd == 1, "console write goes to stdout");
  return send(fd, buf, len, 0);
}
int async_runtime_modify(async_runtime_t *rt, socket_fd_t fd, uint32_t ev, void *ctx) {
  V_ASSERT(ctx == (void *)G_ip && fd == G_ip->fd, "write interest is changed for this connection only");
  G_mod_mask = (int)ev; if (G_mod_calls < 1000) G_mod_calls++; return 0;
}
int debug_message_with_src(const char *a, const char *b, const char *c, int d, const char *e, ...) { return 0; }

/* ---- harness ---- */
void h_flush_message(void) {
  V_NEW(interactive_t, ip);
  static interactive_t *tab[2];
  V_DECL(int, is_console);
  tab[0] = is_console ? ip : 0; tab[1] = is_console ? 0 : ip;
  all_users = tab; max_users = 2;
  G_ip = ip; G_sent = 0; G_mod_calls = 0; G_mod_mask = -1;
#ifdef V_NATIVE
  if (!(C14_RING(ip))) v_assume_failed("C14_RING(ip)", __FILE__, __LINE__);
  int c0 = ip->message_consumer, l0 = ip->message_length, p0 = ip->message_producer, f0 = ip->iflags;
#endif
  int r = flush_message(ip);
  V_POST(C14_RING(ip), "ring well formed");
  V_POST(ip->message_consumer == (c0 + G_sent) % C14_N, "consumer advanced by accepted bytes");
  V_POST(ip->message_length == l0 - G_sent, "length reduced by accepted bytes");
  V_POST(ip->message_producer == p0, "producer untouched");
  V_POST(r != 0 || (ip->iflags & (NET_DEAD | CLOSING)), "0 only when dead/closing");
  (void)r;
}
