/*@harness
{"tier":"quick","mode":"unbounded","tus":["src/comm.c"],"enforce":"flush_message",
 "flags":["--bounds-check","--pointer-check","--conversion-check"],
 "timeout":600,
 "ignore":[{"class":"overflow","text_contains":"inet_packets++","why":"statistics counter, not part of C14"},{"class":"overflow","text_contains":"inet_volume += num_bytes","why":"statistics counter, not part of C14"}],
 "expect":["flush_message.postcondition","flush_message.loop_invariant_step","send.assertion","flush_message.pointer_dereference","flush_message.assigns"],
 "native":{"rename":["send","write"]},
 "assumptions":["send/write stub: returns -1 (any errno) or 1..len"]}
@*/
/*@prelude file=src/comm.c after="^#include \"lpc/include/origin.h\""
#include "c14_ghost.h"
@*/
/*@loop file=src/comm.c function=flush_message match="while (ip->message_length != 0)"
__CPROVER_assigns(length, num_bytes, ip->message_consumer, ip->message_length, ip->out_of_band, inet_packets, inet_volume, G_sent, G_send_calls, G_errno, G_mod_mask, G_mod_calls)
__CPROVER_loop_invariant(C14_RING(ip))
__CPROVER_loop_invariant(__CPROVER_loop_entry(G_sent) <= G_sent && G_sent <= __CPROVER_loop_entry(G_sent) + C14_N && G_sent - __CPROVER_loop_entry(G_sent) + ip->message_length == __CPROVER_loop_entry(ip->message_length))
__CPROVER_loop_invariant(ip->message_consumer == (__CPROVER_loop_entry(ip->message_consumer) + (G_sent - __CPROVER_loop_entry(G_sent))) % C14_N)
__CPROVER_decreases(ip->message_length)
@*/
#include "c14_contracts.h"

/* ---- harness ---- */
void h_flush_message(void) {
  V_NEW(interactive_t, ip);
  static interactive_t *tab[2];
  V_DECL(int, is_console);
  tab[0] = is_console ? ip : 0; tab[1] = is_console ? 0 : ip;
  all_users = tab; max_users = 2;
  G_ip = ip; G_mod_mask = -1;
  V_DECL(long, sent0); V_ASSUME(0 <= sent0 && sent0 <= C14_GSENT_MAX); G_sent = sent0;
#ifdef V_NATIVE
  if (!(C14_RING(ip))) v_assume_failed("C14_RING(ip)", __FILE__, __LINE__);
  int c0 = ip->message_consumer, l0 = ip->message_length, p0 = ip->message_producer, f0 = ip->iflags;
#endif
  int r = flush_message(ip);
  V_POST(C14_RING(ip), "ring well formed");
  V_POST(ip->message_consumer == (c0 + (G_sent - sent0)) % C14_N, "consumer advanced by accepted bytes");
  V_POST(ip->message_length == l0 - (G_sent - sent0), "length reduced by accepted bytes");
  V_POST(ip->message_producer == p0, "producer untouched");
  V_POST(r != 0 || (ip->iflags & (NET_DEAD | CLOSING)), "0 only when dead/closing");
  (void)r;
}
