/*@harness
{"tier":"quick","mode":"unbounded","tus":["src/comm.c"],"enforce":"add_message","replace":["flush_message"],
 "flags":["--bounds-check","--pointer-check"],
 "timeout":900,
 "ignore":[{"class":"overflow","text_contains":"add_message_calls++","why":"statistics counter, not part of C14"}],
 "expect":["add_message.postcondition","add_message.loop_invariant_step","add_message.assertion","flush_message.precondition"],
 "native":{"rename":["send","write"]},
 "assumptions":["snoop path excluded: requires ip->snoop_by == NULL","flush_message replaced by its contract (enforced by harness flush_message)"]}
@*/
/*@prelude file=src/comm.c after="^#include \"lpc/include/origin.h\""
#include "c14_ghost.h"
@*/
/*@loop file=src/comm.c function=add_message match="for (cp = data; *cp; cp++)"
__CPROVER_assigns(cp, ip->message_consumer, ip->message_length, ip->message_producer, ip->out_of_band, ip->iflags, __CPROVER_object_upto(ip->message_buf, C14_N), inet_packets, inet_volume, G_sent, G_send_calls, G_errno, G_mod_mask, G_mod_calls, G_app, G_st1, G_st2, G_seq1, G_seq2, G_crok1, G_crok2, G_val1, G_val2, G_lastbyte)
__CPROVER_loop_invariant(G_early == 0)
__CPROVER_loop_invariant(__CPROVER_same_object(cp, data) && __CPROVER_POINTER_OFFSET(cp) <= G_n)
__CPROVER_loop_invariant(C14_RING(ip) && (ip->iflags & (NET_DEAD | CLOSING)) == 0)
__CPROVER_loop_invariant(0 <= G_app && G_app <= 2 * __CPROVER_POINTER_OFFSET(cp))
__CPROVER_loop_invariant(__CPROVER_loop_entry(G_sent) <= G_sent && G_sent <= __CPROVER_loop_entry(G_sent) + __CPROVER_loop_entry(ip->message_length) + G_app)
// ring view: producer and length follow the appended count and the accepted count 
__CPROVER_loop_invariant(ip->message_producer == (__CPROVER_loop_entry(ip->message_producer) + G_app) % C14_N)
__CPROVER_loop_invariant(ip->message_length == __CPROVER_loop_entry(ip->message_length) + G_app - (G_sent - __CPROVER_loop_entry(G_sent)))
// no byte before cp was skipped 
__CPROVER_loop_invariant((__CPROVER_POINTER_OFFSET(cp) > G_g1) == (G_st1 != 0))
__CPROVER_loop_invariant((__CPROVER_POINTER_OFFSET(cp) > G_g2) == (G_st2 != 0))
// order and CR LF 
__CPROVER_loop_invariant(G_st1 ==> (0 <= G_seq1 && G_seq1 < G_app && G_crok1 && G_val1 == (unsigned char)data[G_g1]))
__CPROVER_loop_invariant(G_st2 ==> (0 <= G_seq2 && G_seq2 < G_app && G_crok2 && G_val2 == (unsigned char)data[G_g2]))
__CPROVER_loop_invariant((G_st1 && G_st2) ==> G_seq1 < G_seq2)
__CPROVER_loop_invariant(G_app > 0 ==> G_lastbyte >= 0)
__CPROVER_decreases(G_n - (long)__CPROVER_POINTER_OFFSET(cp))
@*/
/*@inject file=src/comm.c function=add_message at=before match="ip->message_buf[ip->message_producer] = '\r';"
__CPROVER_assert(ip->message_length < C14_N, "CR is stored into a free ring slot (no unsent byte overwritten)");
G_lastbyte = '\r'; G_app++;
@*/
/*@inject file=src/comm.c function=add_message at=before match="ip->message_buf[ip->message_producer] = *cp;"
__CPROVER_assert(ip->message_length < C14_N, "byte is stored into a free ring slot (no unsent byte overwritten)");
C14_TRACK(cp - data, *cp); G_lastbyte = (unsigned char)*cp; G_app++;
@*/
/*@inject file=src/comm.c function=add_message at=wrap match="break;" nth=1
G_early = 1; G_len_at_break = ip->message_length;
@*/
/*@inject file=src/comm.c function=add_message at=wrap match="break;" nth=2
G_early = 1; G_len_at_break = ip->message_length;
@*/
/*@inject file=src/comm.c function=add_message at=before match="if (ip->snoop_by)"
G_endoff = cp - data;
@*/
#include "c14_contracts.h"

int G_early; int G_len_at_break; long G_endoff = -1;
long G_app, G_n, G_g1, G_g2, G_seq1, G_seq2; int G_st1, G_st2, G_crok1, G_crok2, G_val1, G_val2, G_lastbyte = -1;
static object_t *G_who;

void add_message(object_t *who, char *data)
__CPROVER_requires(who == G_who && who->interactive == G_ip && !(who->flags & O_DESTRUCTED))
__CPROVER_requires(C14_RING(G_ip) && all_users != 0 && G_ip->snoop_by == 0 && 0 <= G_sent && G_sent <= C14_GSENT_MAX / 2)
__CPROVER_requires(0 <= G_n && G_n <= 1000000 && __CPROVER_is_fresh(data, G_n + 1) && data[G_n] == 0)
__CPROVER_requires(0 <= G_g1 && G_g1 < G_g2 && G_g2 < G_n)
__CPROVER_requires(G_early == 0 && G_endoff == -1 && G_app == 0 && G_st1 == 0 && G_st2 == 0 && G_lastbyte == -1)
__CPROVER_assigns(G_ip->message_consumer, G_ip->message_length, G_ip->message_producer, G_ip->out_of_band, G_ip->iflags,
                  __CPROVER_object_upto(G_ip->message_buf, C14_N), inet_packets, inet_volume, add_message_calls,
                  G_sent, G_send_calls, G_errno, G_mod_mask, G_mod_calls, G_app, G_st1, G_st2, G_seq1, G_seq2, G_crok1, G_crok2, G_val1, G_val2, G_lastbyte, G_early, G_endoff, G_len_at_break)
__CPROVER_ensures(C14_RING(G_ip))
/* ring accounting: what is queued now = what was queued + appended - accepted by the socket */
__CPROVER_ensures(G_ip->message_length == __CPROVER_old(G_ip->message_length) + G_app - (G_sent - __CPROVER_old(G_sent)))
__CPROVER_ensures(G_ip->message_producer == (__CPROVER_old(G_ip->message_producer) + G_app) % C14_N)
/* only a suffix is ever dropped: if a later byte went in, every earlier one did, in order, LF preceded by CR, value intact */
__CPROVER_ensures(G_st2 ==> G_st1)
__CPROVER_ensures((G_st1 && G_st2) ==> G_seq1 < G_seq2)
__CPROVER_ensures(G_st1 ==> (G_crok1 && G_val1 == (unsigned char)data[G_g1]))
__CPROVER_ensures(G_st2 ==> (G_crok2 && G_val2 == (unsigned char)data[G_g2]))
/* bytes are lost only with the connection dead or the ring (still) full after a flush attempt, and then only a suffix:
   otherwise the loop ran to a NUL and everything before it was appended */
__CPROVER_ensures((G_endoff >= 0 && !G_early) ==> (G_endoff <= G_n))
__CPROVER_ensures((G_endoff >= 0 && !G_early) ==> (data[G_endoff] == 0))
__CPROVER_ensures((G_endoff >= 0 && !G_early) ==> ((G_endoff > G_g2) == (G_st2 != 0)))
__CPROVER_ensures((G_endoff >= 0 && !G_early) ==> ((G_endoff > G_g1) == (G_st1 != 0)))
__CPROVER_ensures(G_early ==> (G_endoff >= 0 && G_len_at_break >= C14_N - 1))
__CPROVER_ensures(G_endoff < 0 ==> (G_ip->iflags & (NET_DEAD | CLOSING)) != 0)
;

int debug_message(const char *fmt, ...) { return 0; }

void h_add_message(void) {
  V_NEW(interactive_t, ip);
  V_NEW(object_t, who);
  static interactive_t *tab[2];
  V_DECL(int, is_console);
  tab[0] = is_console ? ip : 0; tab[1] = is_console ? 0 : ip;
  all_users = tab; max_users = 2;
  who->interactive = ip; ip->ob = who; ip->snoop_by = 0; ip->snoop_on = 0;
  G_ip = ip; G_who = who; G_mod_mask = -1;
  V_DECL(long, sent0); V_ASSUME(0 <= sent0 && sent0 <= C14_GSENT_MAX / 2); G_sent = sent0;
  V_DECL(long, n); V_DECL(long, g1); V_DECL(long, g2);
  G_n = n; G_g1 = g1; G_g2 = g2;
  char *data = 0;
#ifdef V_NATIVE
  /* native twin: the counterexample does not carry the fresh string; rebuild a representative one */
  V_ASSUME(0 <= n && n <= 1000000);
  data = calloc(n + 1, 1); for (long i = 0; i < n; i++) data[i] = (i % 7 == 3) ? '\n' : 'a' + (i % 26);
#endif
  add_message(who, data);
}
