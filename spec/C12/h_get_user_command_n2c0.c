/*@harness
{"tier":"quick","mode":"bounded(connection table of 2 slots with arbitrary gaps, cursor at 0; per-user flags and pending-command bits symbolic)","tus":["src/comm.c"],"include_tu":true,"dfcc":false,
 "functions":["get_user_command"],
 "stub_out":["flush_message","first_cmd_in_buf","cmd_in_buf","next_cmd_in_buf","telnet_neg","add_message","safe_tcsetattr"],
 "flags":["--bounds-check","--pointer-check"],"unwind":5,"timeout":900,
 "expect":["h_get_user_command_n2c0.assertion","get_user_command.pointer_dereference","get_user_command.assertion"],
 "native":null,
 "assumptions":["first_cmd_in_buf / cmd_in_buf / next_cmd_in_buf / telnet_neg are contract stubs driven by a ghost bit per user ('a complete command is waiting'); their real contracts are enforced under C13",
                "the function-scope static cursor s_next_user is set from a ghost value at entry (injected), ranging over its invariant 0 <= cursor < max_users; the invariant is re-asserted at every return",
                "flush_message may drop the connection's NET_DEAD bit only (C14 frame)"]}
@*/
/*@prelude file=src/comm.c after="^#include \"lpc/include/origin.h\""
extern int G_cursor0, G_cursor_end;
@*/
/*@inject file=src/comm.c function=get_user_command at=before match="for (i = 0; i < max_users; i++)"
s_next_user = G_cursor0;
@*/
/*@inject file=src/comm.c function=get_user_command at=wrap match="return 0;"
__CPROVER_assert(max_users == 0 || (0 <= s_next_user && s_next_user < max_users), "round-robin cursor stays inside the connection table (no command found)"); G_cursor_end = s_next_user;
@*/
/*@inject file=src/comm.c function=get_user_command at=wrap match="return buf;"
__CPROVER_assert(0 <= s_next_user && s_next_user < max_users, "round-robin cursor stays inside the connection table (command returned)"); G_cursor_end = s_next_user;
@*/
#define NU_FIXED 2
#define CUR_FIXED 0
#define H_NAME h_get_user_command_n2c0
#include "guc_common.inc"
