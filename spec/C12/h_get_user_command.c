/*@harness
{"tier":"quick","mode":"bounded(connection table of at most 3 slots with arbitrary gaps; table size, cursor, per-user flags and pending-command bits symbolic)","tus":["src/comm.c"],"include_tu":true,"dfcc":false,
 "functions":["get_user_command"],
 "stub_out":["flush_message","first_cmd_in_buf","cmd_in_buf","next_cmd_in_buf","telnet_neg","add_message","safe_tcsetattr"],
 "flags":["--bounds-check","--pointer-check"],"unwind":5,"timeout":600,
 "expect":["h_get_user_command.assertion","get_user_command.pointer_dereference","get_user_command.assertion"],
 "native":null,
 "assumptions":["first_cmd_in_buf / cmd_in_buf / next_cmd_in_buf / telnet_neg are contract stubs driven by a ghost bit per user ('a complete command is waiting'); their real contracts are enforced under C13",
                "the function-scope static cursor s_next_user is set from a ghost value at entry (injected); the invariant 0 <= cursor < max_users is re-asserted at every return",
                "flush_message may drop the connection's NET_DEAD bit only (C14 frame)"]}
@*/
/*@prelude file=src/comm.c after="^#include \"lpc/include/origin.h\""
extern int G_cursor0, G_cursor_end;
@*/
/*@inject file=src/comm.c function=get_user_command at=before match="for (i = 0; i < max_users; i++)"
s_next_user = G_cursor0;
@*/
/*@inject file=src/comm.c function=get_user_command at=wrap match="return 0;"
__CPROVER_assert(max_users == 0 || (0 <= s_next_user && s_next_user < max_users), "round-robin cursor stays inside the connection table (no command found)"); G_cursor_end = s_next_user;
@*/
/*@inject file=src/comm.c function=get_user_command at=wrap match="return buf;"
__CPROVER_assert(0 <= s_next_user && s_next_user < max_users, "round-robin cursor stays inside the connection table (command returned)"); G_cursor_end = s_next_user;
@*/
#ifndef V_NATIVE
#include "comm.c"
#endif
#include "vharness.h"
#define NU 3
int G_cursor0, G_cursor_end = -1;
/* separate objects, not an array: a pointer that may refer to one of several elements of ONE array object makes CBMC
   byte-update the whole 19 KB array on every store through it */
static interactive_t U0, U1, U2; static interactive_t *const UP[3] = {&U0, &U1, &U2};
static object_t OB0, OB1, OB2; static object_t *const OBP[3] = {&OB0, &OB1, &OB2}; static interactive_t *TAB[NU];
static int G_cmd[NU];                 /* ghost: user k has a complete command waiting */
static int G_first_calls[NU], G_next_calls[NU];
main_options_t *g_main_options; static main_options_t G_opts;
object_t *command_giver; time_t current_time;
static int uidx(interactive_t *ip) { return ip == &U0 ? 0 : (ip == &U1 ? 1 : 2); }   /* no pointer division */
int flush_message(interactive_t *ip) { V_ASSERT(ip == &U0 || ip == &U1 || ip == &U2, "flush_message on a table entry"); return 1; }
static char *first_cmd_in_buf(interactive_t *ip) { int k = uidx(ip); if (G_first_calls[k] < 10) G_first_calls[k]++; return G_cmd[k] ? ip->text : (char *)0; }
static int cmd_in_buf(interactive_t *ip) { V_DECL(int, more); return more != 0; }
static void next_cmd_in_buf(interactive_t *ip) { int k = uidx(ip); if (G_next_calls[k] < 10) G_next_calls[k]++; }
static void telnet_neg(char *to, char *from) { to[0] = 0; }
void add_message(object_t *who, char *data) { }
static void safe_tcsetattr(int fd, struct termios *t) { }
int tcgetattr(int fd, struct termios *t) { return 0; }
int debug_message_with_src(const char *a, const char *b, const char *c, int d, const char *e, ...) { return 0; }

void h_get_user_command(void) {
  V_FILL(main_options_t, G_opts, opts); g_main_options = &G_opts;
  V_DECL(int, nu); V_ASSUME(0 <= nu && nu <= NU);
  int flags0[NU];
  for (int k = 0; k < NU; k++) {
    V_DECL(int, present); V_DECL(int, fl); V_DECL(int, has_cmd); V_DECL(int, msglen);
    UP[k]->ob = OBP[k]; OBP[k]->interactive = UP[k]; UP[k]->iflags = fl; UP[k]->message_length = msglen ? 1 : 0; UP[k]->connection_type = 1;
    TAB[k] = (present && k < nu) ? UP[k] : 0; G_cmd[k] = has_cmd != 0; flags0[k] = fl;
  }
  all_users = TAB; max_users = nu;
  V_DECL(int, cur); V_ASSUME(nu == 0 ? cur == 0 : (0 <= cur && cur < nu)); G_cursor0 = cur;
  command_giver = 0;
  char *r = get_user_command();
#define SERVABLE(k) (TAB[k] != 0 && (flags0[k] & CMD_IN_BUF) && (flags0[k] & HAS_CMD_TURN) && G_cmd[k])
  int served = -1;
  for (int k = 0; k < NU; k++) if (r && command_giver == OBP[k]) served = k;
  if (r) {
    V_ASSERT(served >= 0 && served < nu && SERVABLE(served), "a command is taken only from a connected user that has a complete command and still holds this cycle's turn");
    V_ASSERT(!(UP[served]->iflags & HAS_CMD_TURN), "serving a command consumes that user's turn");
    V_ASSERT(G_next_calls[served] == 1, "exactly one command of that user is consumed");
  } else {
    for (int k = 0; k < NU; k++) V_ASSERT(!(k < nu && SERVABLE(k)), "nobody who holds a turn and has a complete command waiting is skipped, whatever the gaps in the table and wherever the cursor starts");
  }
  for (int k = 0; k < NU; k++) if (k != served) {
    V_ASSERT((UP[k]->iflags & HAS_CMD_TURN) == (flags0[k] & HAS_CMD_TURN), "nobody else's turn is touched");
    V_ASSERT(G_next_calls[k] == 0, "nobody else's buffer is consumed");
    V_ASSERT((UP[k]->iflags | CMD_IN_BUF) == (flags0[k] | CMD_IN_BUF) && (!(flags0[k] & CMD_IN_BUF) || (UP[k]->iflags & CMD_IN_BUF) || !G_cmd[k] || TAB[k] == 0 || k >= nu),
             "other users' flags change only by clearing CMD_IN_BUF when no complete command waits");
  }
  /* fairness of the rotation: the scan starts at the cursor and the cursor ends one past the served slot */
  V_ASSERT(!r || G_cursor_end == (served + nu - 1) % nu, "after serving slot s the cursor points at the slot scanned after s, so the next scan starts behind the served user");
  V_COVER(r && served == 0 && nu == 3 && cur == 2); V_COVER(!r && nu == 3); V_COVER(r && TAB[1] == 0 && nu == 3 && served == 2); V_COVER(nu == 0);
  /* with several servable users the one reached first in cursor order (cursor, cursor-1, ... wrapping) is served */
  if (r && nu > 0) for (int step = 0; step < NU; step++) { int k = ((cur - step) % nu + nu) % nu; if (k == served) break; V_ASSERT(!SERVABLE(k), "the scan serves the first servable user in cursor order: nobody before it in the rotation is passed over"); }
}
