/*@harness
{"tier":"quick","mode":"bounded(function tables <= 2 entries, <= 2 inherits per program, inheritance depth <= 2; names, flags, offsets symbolic)","tus":["src/apply.c"],"dfcc":false,"functions":["find_function"],
 "flags":["--bounds-check","--pointer-check"],"unwind":5,"timeout":900,
 "expect":["h_find_function.assertion","find_function.pointer_dereference"],
 "native":{},
 "notes":"bounded stand-in: binary search + recursive inherit search compared with an exhaustive oracle over a small inheritance graph"}
@*/
#ifdef HAVE_CONFIG_H
#include <config.h>
#endif
#include "std.h"
#include "lpc/program.h"
#include "apply.h"
#include "vharness.h"
static char G_names[8];                      /* name pointers = addresses inside this array: pointer order is the table order */
#define NAME(k) (&G_names[k])
static program_t P[4];                       /* P[0] top, P[1], P[2] its inherits, P[3] inherited by P[1] */
static compiler_function_t T[4][3]; static unsigned short F[4][8]; static inherit_t I[4][2];

static void mk_prog(int k, int nfun, int n0, int n1, int n2, int r0, int r1, int r2) {
  P[k].num_functions_defined = (unsigned short)nfun; P[k].function_table = T[k]; P[k].function_flags = F[k]; P[k].inherit = I[k];
  T[k][0].name = NAME(n0); T[k][1].name = NAME(n1); T[k][2].name = NAME(n2);
  T[k][0].runtime_index = (function_index_t)r0; T[k][1].runtime_index = (function_index_t)r1; T[k][2].runtime_index = (function_index_t)r2;
}
/* oracle: does program k (searching its own table, then its inherits last-to-first, depth first) define `name`?  mirrors the
   documented rule: the most derived definition wins, later inherits shadow earlier ones */
static int defined_here(int k, const char *name, int *idx) {
  for (int i = 0; i < P[k].num_functions_defined; i++) if (T[k][i].name == name) { *idx = i; return 1; }
  return 0;
}

void h_find_function(void) {
  V_DECL(int, nf0); V_DECL(int, nf1); V_DECL(int, nf2); V_DECL(int, nf3);
  V_ASSUME(0 <= nf0 && nf0 <= 2 && 0 <= nf1 && nf1 <= 2 && 0 <= nf2 && nf2 <= 2 && 0 <= nf3 && nf3 <= 2);
  int a[4][3], r[4][3];
  for (int k = 0; k < 4; k++) {
    V_DECL(int, a0); V_DECL(int, a1); V_DECL(int, a2); V_DECL(int, r0); V_DECL(int, r1); V_DECL(int, r2);
    V_ASSUME(0 <= a0 && a0 < a1 && a1 < a2 && a2 < 4);           /* tables are sorted by name pointer, no duplicates */
    V_ASSUME(0 <= r0 && r0 < 3 && 0 <= r1 && r1 < 3 && 0 <= r2 && r2 < 3);
    mk_prog(k, k == 0 ? nf0 : k == 1 ? nf1 : k == 2 ? nf2 : nf3, a0, a1, a2, r0, r1, r2);
    for (int j = 0; j < 3; j++) { V_DECL(v_ushort, fl); F[k][j] = fl; }
  }
  V_DECL(int, ni0); V_DECL(int, ni1); V_ASSUME(0 <= ni0 && ni0 <= 2 && 0 <= ni1 && ni1 <= 1);
  P[0].num_inherited = (unsigned short)ni0; P[1].num_inherited = (unsigned short)ni1; P[2].num_inherited = 0; P[3].num_inherited = 0;
  I[0][0].prog = &P[1]; I[0][1].prog = &P[2]; I[1][0].prog = &P[3];
  V_DECL(v_ushort, fo1); V_DECL(v_ushort, vo1); V_DECL(v_ushort, fo2); V_DECL(v_ushort, vo2); V_DECL(v_ushort, fo3); V_DECL(v_ushort, vo3);
  I[0][0].function_index_offset = fo1; I[0][0].variable_index_offset = vo1; I[0][1].function_index_offset = fo2; I[0][1].variable_index_offset = vo2;
  I[1][0].function_index_offset = fo3; I[1][0].variable_index_offset = vo3;
  V_DECL(int, want); V_ASSUME(0 <= want && want < 4);
  const char *name = NAME(want);
  int index = -1, fio = -1, vio = -1;
  program_t *p = find_function(&P[0], name, &index, &fio, &vio);
#define BAD (NAME_UNDEFINED | NAME_PROTOTYPE | NAME_INHERITED)
  if (p) {
    int k = (int)(p - P);
    V_ASSERT(0 <= k && k < 4 && 0 <= index && index < p->num_functions_defined && p->function_table[index].name == name, "the answer is an entry of that name in the program returned");
    V_ASSERT(!(p->function_flags[p->function_table[index].runtime_index] & BAD), "the entry is a real definition (not undefined / prototype / inherited placeholder)");
    int efo = k == 0 ? 0 : k == 1 ? fo1 : k == 2 ? fo2 : fo1 + fo3, evo = k == 0 ? 0 : k == 1 ? vo1 : k == 2 ? vo2 : vo1 + vo3;
    V_ASSERT(fio == efo && vio == evo, "function and variable offsets are the sums along the inheritance path taken");
    V_ASSERT(k == 0 || ni0 >= 1, "only programs that are actually inherited are searched");
    /* most-derived wins: the top program's own real definition shadows everything; the later inherit shadows the earlier */
    int i0;
    V_ASSERT(k == 0 || !(defined_here(0, name, &i0) && !(F[0][T[0][i0].runtime_index] & BAD)), "an own definition of the top program is preferred to inherited ones");
    int i2;
    V_ASSERT(!(k == 1 || k == 3) || !(ni0 == 2 && defined_here(2, name, &i2) && !(F[2][T[2][i2].runtime_index] & BAD)), "the later inherit shadows the earlier one");
  } else {
    int i0, i1, i2, i3;
    int top_blocks = defined_here(0, name, &i0) && (F[0][T[0][i0].runtime_index] & (NAME_UNDEFINED | NAME_PROTOTYPE)) && !(F[0][T[0][i0].runtime_index] & NAME_INHERITED);
    V_ASSERT(top_blocks || !(defined_here(0, name, &i0) && !(F[0][T[0][i0].runtime_index] & BAD)), "not-found is never answered when the top program defines the function");
    if (!top_blocks) {
      int p2_blocks = ni0 == 2 && defined_here(2, name, &i2) && (F[2][T[2][i2].runtime_index] & (NAME_UNDEFINED | NAME_PROTOTYPE)) && !(F[2][T[2][i2].runtime_index] & NAME_INHERITED);
      V_ASSERT(!(ni0 == 2 && defined_here(2, name, &i2) && !(F[2][T[2][i2].runtime_index] & BAD)), "not-found is never answered when an inherited program defines the function (later inherit)");
      V_ASSERT(!(ni0 >= 1 && defined_here(1, name, &i1) && !(F[1][T[1][i1].runtime_index] & BAD)), "not-found is never answered when an inherited program defines the function (earlier inherit)");
      (void)p2_blocks; (void)i3;
    }
  }
  V_COVER(p == &P[3]); V_COVER(p == &P[0] && index == 1); V_COVER(p == 0 && ni0 == 2); V_COVER(p == &P[2]);
}
