/*@harness
{"tier":"quick","mode":"width","tus":["src/apply.c"],"include_tu":true,"dfcc":false,"functions":["apply_low","function_visible"],
 "stub_out":["find_function_by_name2"],
 "flags":["--bounds-check","--pointer-check"],"unwind":9,"timeout":600,"defines":["V_C07_SMALL_CACHE"],
 "expect":["h_apply_low.assertion","apply_low.pointer_dereference"],
 "native":{"rename":["strcmp"]},
 "assumptions":["find_function_by_name2 replaced by an oracle stub: it answers the fixed ghost result (G_found, G_defprog, G_index, G_fio, G_vio) - i.e. what the inheritance search finds depends only on the programs (find_function has its own harness)",
                "call_program / push_control_stack / setup_variables / try_reset / string table primitives are stubs that record their arguments",
                "strcmp(entry->name, fun) answers a fixed ghost bit (names equal or not)"],
 "notes":"apply cache contract: with any cache content that satisfies the cache invariant CI, a call is made iff the function exists and is visible to this kind of caller, with the oracle's program and offsets, and CI holds again afterwards - so the outcome never depends on earlier calls"}
@*/
/* configuration: the apply cache is built with 4 slots (APPLY_CACHE_BITS 2) instead of 2048 to keep the symbolic slot index small;
   the slot logic is uniform in the size */
#ifdef HAVE_CONFIG_H
#include <config.h>
#endif
#include "std.h"
#ifndef V_NATIVE
#undef APPLY_CACHE_BITS
#define APPLY_CACHE_BITS 2
#endif
#ifndef V_NATIVE
#include "apply.c"        /* scratch copy of the real TU: the cache array is file-static */
#endif
#include "vharness.h"
/* ---- ghost oracle: what the inheritance search finds for (ob, fun) ---- */
static int G_found; static program_t *G_defprog; static int G_index, G_fio, G_vio;
static int G_name_eq;                 /* strcmp(entry->name, fun) == 0 */
static int G_called, G_frames, G_popped; static program_t *G_called_prog; static int G_called_addr;
static control_stack_t G_frame;
main_options_t *g_main_options; static main_options_t G_opts;
time_t current_time; control_stack_t *csp; program_t *current_prog; int caller_type;
int function_index_offset, variable_index_offset; object_t *previous_ob, *current_object;

static program_t *find_function_by_name2(object_t *ob, char **name, int *index, int *fio, int *vio) {
  if (!G_found) return 0;
  *index = G_index; *fio = G_fio; *vio = G_vio; return G_defprog;
}
int strcmp(const char *a, const char *b) { return G_name_eq ? 0 : 1; }
void try_reset(object_t *ob) { }
void pop_n_elems(size_t n) { if (G_popped < 10) G_popped++; }
void push_control_stack(int f) { csp = &G_frame; if (G_frames < 10) G_frames++; }
void setup_variables(int a, int l, int n) { }
void setup_varargs_variables(int a, int l, int n) { }
static char G_code_o[8], G_code_d[8]; static const char *G_called_pc;
void eval_instruction(const char *pc) { if (G_called < 10) G_called++; G_called_prog = current_prog; G_called_pc = pc; }
void free_string(char *s) { }
char *ref_string(char *s) { return s; }
char *make_shared_string(const char *s) { return (char *)s; }
int debug_message_with_src(const char *a, const char *b, const char *c, int d, const char *e, ...) { return 0; }

/* visibility as the property states it, written independently of function_visible() */
static int spec_visible(int origin, int flags) {
  if (origin == ORIGIN_CALL_OTHER && (flags & (NAME_STATIC | NAME_PRIVATE | NAME_PROTECTED))) return 0;
  return 1;
}
/* cache invariant for one slot, relative to the oracle */
#define CI(e, oprog, match) (!((e)->id == (oprog)->id_number && (e)->oprogp == (oprog) && (match)) || \
   ((e)->progp == (G_found ? G_defprog : (program_t *)0) && \
    (!(e)->progp || ((e)->index == G_index && (e)->function_index_offset == G_fio && (e)->variable_index_offset == G_vio))))

void h_apply_low(void) {
  static program_t oprog, dprog; static object_t ob; static char fun[] = "heart_beat";
  static compiler_function_t ftab[4]; static runtime_function_u foffs[8]; static unsigned short fflags[8], dflags[8];
  static compressed_offset_table_t comp;
  V_FILL(main_options_t, G_opts, opts); g_main_options = &G_opts;
  V_FILL(program_t, oprog, oprog); V_FILL(program_t, dprog, dprog); V_FILL(object_t, ob, ob);
  V_DECL(int, same_prog); V_DECL(int, found); V_DECL(int, idx); V_DECL(int, fio); V_DECL(int, vio); V_DECL(int, ridx); V_DECL(int, name_eq);
  V_DECL(v_ushort, flags); V_DECL(int, origin); V_DECL(v_ushort, addr);
  G_defprog = same_prog ? &oprog : &dprog;
  V_ASSUME(0 <= idx && idx < 4 && 0 <= fio && fio < 4 && 0 <= ridx && ridx < 4 && vio >= 0 && vio < 100);
  V_ASSUME(!same_prog || (fio == 0 && vio == 0));      /* a function defined in the object's own program has no inherit offsets */
  V_ASSUME(origin == 0 || origin == ORIGIN_DRIVER || origin == ORIGIN_LOCAL || origin == ORIGIN_CALL_OTHER || origin == ORIGIN_CALL_OUT);
  comp.first_defined = 0; comp.num_deleted = 0;
  oprog.function_flags = fflags; dprog.function_flags = dflags;   /* the object's own program carries the effective flags (inherit modifiers included) */
  for (int q = 0; q < 8; q++) { V_DECL(v_ushort, dfl); dflags[q] = dfl; } dprog.function_table = ftab; oprog.function_table = ftab;
  dprog.function_offsets = foffs; oprog.function_offsets = foffs; dprog.function_compressed = &comp; oprog.function_compressed = &comp;
  ftab[idx].name = fun; ftab[idx].runtime_index = (function_index_t)ridx; ftab[idx].address = addr;
  fflags[ridx + fio] = flags;
  oprog.program = G_code_o; dprog.program = G_code_d;
  ob.prog = &oprog; ob.flags &= ~O_DESTRUCTED;
  G_found = found != 0; G_index = idx; G_fio = fio; G_vio = vio; G_name_eq = name_eq != 0;
  /* the slot apply_low will look at, with arbitrary content satisfying the cache invariant */
  int ix = (oprog.id_number ^ (intptr_t)fun ^ ((intptr_t)fun >> APPLY_CACHE_BITS)) & (APPLY_CACHE_SIZE - 1);
  cache_entry_t *e = &cache[ix];
  V_FILL(cache_entry_t, cache[ix], slot);
  V_DECL(int, slot_kind);        /* 0: empty, 1: our program, 2: another program */
  e->name = fun; e->oprogp = slot_kind == 1 ? &oprog : (slot_kind == 2 ? &dprog : 0);
  if (slot_kind == 0) e->id = 0;
  if (e->progp) e->progp = G_defprog;
  V_ASSUME(e->index >= 0 && e->index < 4 && e->function_index_offset >= 0 && e->function_index_offset < 4);
  V_ASSUME(CI(e, &oprog, G_name_eq));
  call_origin = origin;
  int eff_origin = origin ? origin : ORIGIN_DRIVER;
  int r = apply_low(fun, &ob, 0);
  int expect_call = G_found && spec_visible(eff_origin, flags);
  V_ASSERT(r == 0 || r == 1, "apply_low answers 0 or 1");
  V_ASSERT(r == expect_call, "the function runs iff it exists and is visible to this kind of caller - whatever the cache held");
  V_ASSERT((G_called == 1) == (r == 1) && G_called <= 1, "exactly one call is made on success, none on failure");
  V_ASSERT(!r || (G_called_prog == G_defprog && current_prog == G_defprog && G_called_pc == G_defprog->program + addr), "the call enters the defining program at the function's address");
  V_ASSERT(!r || (function_index_offset == G_fio && variable_index_offset == G_vio && csp->fr.table_index == G_index), "the frame carries the offsets of the path the search took (the object's own variables)");
  V_ASSERT(!r || (current_object == &ob && caller_type == eff_origin), "current object and caller kind are set for the callee");
  V_ASSERT(call_origin == 0, "the one-shot call origin is consumed");
  V_ASSERT(CI(e, &oprog, 1) || !(e->id == oprog.id_number && e->oprogp == &oprog), "the cache slot agrees with the programs afterwards (no stale 'not defined' entry for an existing function)");
  V_COVER(r == 1 && slot_kind == 1 && G_name_eq); V_COVER(r == 1 && slot_kind == 0); V_COVER(r == 0 && G_found); V_COVER(r == 0 && !G_found && slot_kind == 1);
}
