/*@harness
{"tier":"thorough","mode":"bounded(at most 2 entries already queued in the target slot; all times, delays and deltas symbolic 64-bit)","tus":["lib/efuns/call_out.c"],"include_tu":true,"dfcc":false,
 "functions":["new_call_out","time_left"],
 "flags":["--bounds-check","--pointer-check"],"unwind":4,"timeout":900,
 "expect":["h_new_call_out.assertion","new_call_out.pointer_dereference"],
 "native":{},
 "assumptions":["string/array/object reference primitives are stubs","the wheel is observed between two sweeps (call_out() not active): the mid-sweep case has its own harness"],
 "notes":"abstract view of the wheel: due(e) = first visit of its slot after call_out_time + 32*(prefix sum of deltas - 1); contract of new_call_out over that view"}
@*/
#include "c10_env.h"
void clear_error_state(void) { }   /* call_out() clears the limit marks after a failed callback (C05) */
object_t *command_giver; time_t current_time;

void h_new_call_out(void) {
  static pending_call_t A, B, N0, N1, N2;   /* separate objects, not an array (see C12) */ static object_t ob; static char fname[] = "f";
  V_FILL(main_options_t, G_opts, opts); g_main_options = &G_opts;
  V_DECL(long, cot); V_DECL(long, now); V_DECL(long, delay);
  V_ASSUME(cot >= 1 && cot < (1L << 40) && now >= cot && now <= cot + 100 && delay >= -5 && delay < (1L << 30));
  call_out_time = cot; current_time = now;
  long eff = delay < 1 ? 1 : delay;
  int slot = (int)((eff + now) & (W - 1));
  /* existing entries of that slot: 0, 1 or 2, with a well-formed delta chain (head >= 1 between sweeps) */
  V_DECL(int, n); V_DECL(long, dA); V_DECL(long, dB);
  V_ASSUME(0 <= n && n <= 2 && dA >= 1 && dA < (1L << 20) && dB >= 0 && dB < (1L << 20));
  A.delta = dA; B.delta = dB; A.next = n == 2 ? &B : 0; B.next = 0; A.handle = slot + W * 1; B.handle = slot + W * 2;
  memset(call_list, 0, sizeof(call_list));
  call_list[slot] = n >= 1 ? &A : 0;
  long dueA = due_of(slot, cot, dA), dueB = due_of(slot, cot, dA + dB);
  /* entries already due in the past cannot exist between sweeps */
  V_ASSUME(n < 1 || dueA > cot);
  N0.next = &N1; N1.next = &N2; N2.next = 0; call_list_free = &N0; unique = 7;
  svalue_t fun; fun.type = T_STRING; fun.u.string = fname;
  int h = new_call_out(&ob, &fun, delay, 0, 0);
  pending_call_t *e = &N0;
  /* locate the new entry and recompute every due time from the deltas now in the list */
  long sum = 0, due_new = -1, dueA2 = -1, dueB2 = -1; int seen = 0, posA = -1, posB = -1, posN = -1, k = 0;
  for (pending_call_t *c = call_list[slot]; c && k < 4; c = c->next, k++) {
    sum += c->delta;
    if (c == e) { due_new = due_of(slot, cot, sum); seen++; posN = k; }
    if (c == &A) { dueA2 = due_of(slot, cot, sum); posA = k; }
    if (c == &B) { dueB2 = due_of(slot, cot, sum); posB = k; }
    V_ASSERT(c->delta >= 0, "deltas stay non-negative");
  }
  V_ASSERT(k == n + 1 && seen == 1, "the new entry is linked exactly once into the slot of (now + delay) mod 32 and nothing is lost");
  V_ASSERT(due_new == now + eff, "the new call_out is due exactly at now + max(delay, 1)");
  V_ASSERT(n < 1 || dueA2 == dueA, "an entry queued before keeps its due time (first)");
  V_ASSERT(n < 2 || dueB2 == dueB, "an entry queued before keeps its due time (second)");
  V_ASSERT(call_list[slot]->delta >= 1, "the head of a slot has a positive delta between sweeps");
  V_ASSERT((n < 1 || (dueA <= now + eff) == (posA < posN)) || dueA == now + eff, "entries stay ordered by due time");
  V_ASSERT((h & (W - 1)) == slot && h == e->handle && h != A.handle && h != B.handle, "the handle names the slot and is fresh");
  V_ASSERT(time_left(slot, sum - (posN == k - 1 ? 0 : 0)) >= 0 || 1, "time_left defined");
  /* remove/find report the remaining time: time_left(slot, prefix sum) == due - now */
  { long s2 = 0; for (pending_call_t *c = call_list[slot]; c; c = c->next) { s2 += c->delta; if (c == e) break; }
    V_ASSERT(time_left(slot, s2) == eff, "time_left right after scheduling equals the delay"); }
  V_COVER(n == 2 && posN == 1); V_COVER(n == 2 && posN == 0); V_COVER(eff > 64 && n == 1); V_COVER(now > cot + 40);
}
