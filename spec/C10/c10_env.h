/* C10 environment: the call_out wheel is file-static, so the harness #includes the scratch copy of call_out.c */
#ifndef C10_ENV_H
#define C10_ENV_H
#ifndef V_NATIVE
#include "call_out.c"
#endif
#include "vharness.h"
#include "src/main.h"
#define W CALLOUT_CYCLE_SIZE
main_options_t *g_main_options; static main_options_t G_opts;
int debug_message_with_src(const char *a, const char *b, const char *c, int d, const char *e, ...) { return 0; }
char *make_shared_string(const char *s) { return (char *)s; }
void free_string(char *s) { }
void free_object(object_t *o, const char *w) { }
void free_funp(funptr_t *f) { }
void free_array(array_t *a) { }
void free_empty_array(array_t *a) { }
array_t *allocate_empty_array(size_t n) { return 0; }
/* due time of an entry: the wheel visits slot s at the seconds t > call_out_time with t == s (mod W); the entry whose
   prefix sum of deltas is R fires at the R-th such visit */
static long first_visit(int s, long cot) { long d = ((long)s - (cot & (W - 1))) & (W - 1); return cot + (d == 0 ? W : d); }
static long due_of(int s, long cot, long prefix_sum) { return first_visit(s, cot) + W * (prefix_sum - 1); }
#endif
