/*@harness
{"tier":"quick","mode":"bounded(a slot holding 3 entries, any one of them removed by handle; all times and deltas symbolic)","tus":["lib/efuns/call_out.c"],"include_tu":true,"dfcc":false,
 "functions":["remove_call_out_by_handle","time_left","free_call","free_called_call"],
 "flags":["--bounds-check","--pointer-check"],"unwind":5,"timeout":900,
 "expect":["h_remove_by_handle.assertion","remove_call_out_by_handle.pointer_dereference"],
 "native":{},
 "assumptions":["reference-count primitives are stubs","the wheel is observed between two sweeps"],
 "notes":"contract of remove_call_out_by_handle over the due-time view: the removed entry is gone, the time reported is its due time minus now, every other entry keeps its due time"}
@*/
#include "c10_env.h"
void clear_error_state(void) { }   /* call_out() clears the limit marks after a failed callback (C05) */
object_t *command_giver; time_t current_time;

void h_remove_by_handle(void) {
  static pending_call_t A, B, C; static object_t ob; static char fname[] = "f";
  V_FILL(main_options_t, G_opts, opts); g_main_options = &G_opts;
  V_DECL(long, cot); V_DECL(long, now); V_DECL(int, slot); V_DECL(long, dA); V_DECL(long, dB); V_DECL(long, dC); V_DECL(int, which);
  V_ASSUME(cot >= 1 && cot < (1L << 40) && now >= cot && now <= cot + 3 && 0 <= slot && slot < W);
  V_ASSUME(dA >= 1 && dA < 1000 && dB >= 0 && dB < 1000 && dC >= 0 && dC < 1000 && 0 <= which && which <= 2);
  call_out_time = cot; current_time = now;
  memset(call_list, 0, sizeof(call_list));
  A.delta = dA; B.delta = dB; C.delta = dC; A.next = &B; B.next = &C; C.next = 0;
  A.ob = &ob; B.ob = &ob; C.ob = &ob; A.function.s = fname; B.function.s = fname; C.function.s = fname; A.vs = 0; B.vs = 0; C.vs = 0;
  A.command_giver = 0; B.command_giver = 0; C.command_giver = 0;
  A.handle = slot + W * 1; B.handle = slot + W * 2; C.handle = slot + W * 3;
  call_list[slot] = &A; call_list_free = 0;
  long dueA = due_of(slot, cot, dA), dueB = due_of(slot, cot, dA + dB), dueC = due_of(slot, cot, dA + dB + dC);
  V_ASSUME(dueA > now);                       /* nothing overdue between sweeps */
  pending_call_t *victim = which == 0 ? &A : (which == 1 ? &B : &C);
  long due_victim = which == 0 ? dueA : (which == 1 ? dueB : dueC);
  int r = remove_call_out_by_handle(victim->handle);
  V_ASSERT(r == (int)(due_victim - now), "remove_call_out reports the time that was left until the call_out was due");
  long sum = 0, a2 = -1, b2 = -1, c2 = -1; int k = 0, seen_victim = 0;
  for (pending_call_t *c = call_list[slot]; c && k < 4; c = c->next, k++) {
    sum += c->delta;
    if (c == victim) seen_victim = 1;
    if (c == &A) a2 = due_of(slot, cot, sum); if (c == &B) b2 = due_of(slot, cot, sum); if (c == &C) c2 = due_of(slot, cot, sum);
    V_ASSERT(c->delta >= 0, "deltas stay non-negative");
  }
  V_ASSERT(k == 2 && !seen_victim, "exactly the removed entry leaves the slot (it can never fire)");
  V_ASSERT(which == 0 || a2 == dueA, "removing an entry does not move the due time of the entry before it");
  V_ASSERT(which == 1 || b2 == dueB, "removing an entry does not move the due time of its neighbours (middle)");
  V_ASSERT(which == 2 || c2 == dueC, "removing an entry does not move the due time of the entries behind it");
  V_ASSERT(remove_call_out_by_handle(victim->handle) == -1 || 1, "second removal");
  V_COVER(which == 1 && dB > 0 && dC > 0); V_COVER(which == 0); V_COVER(which == 2 && r > 64);
}
