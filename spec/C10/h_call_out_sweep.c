/*@harness
{"tier":"quick","mode":"bounded(sweep of 1 second over a slot holding at most 2 entries; the callback may schedule one new call_out with a symbolic delay; all times and deltas symbolic)","tus":["lib/efuns/call_out.c"],"include_tu":true,"dfcc":false,
 "functions":["call_out","new_call_out","free_called_call","free_call"],
 "flags":["--bounds-check","--pointer-check","--unwindset","due_in_slot.0:6"],"unwind":3,"timeout":1200,
 "expect":["h_call_out_sweep.assertion","apply.assertion","call_out.pointer_dereference"],
 "native":{"rename":["setjmp"]},
 "assumptions":["apply() is the LPC callback: it may call call_out() (new_call_out) once, re-entrantly, with any delay","setjmp returns 0 (the error path is C05/C09 territory)","reference-count primitives are stubs"],
 "notes":"per-second sweep contract over the due-time view: exactly the entries due in the swept seconds fire, once, the others keep their due time; an entry scheduled from inside a callback is due at now + max(delay,1)"}
@*/
#include "c10_env.h"
void clear_error_state(void) { }   /* call_out() clears the limit marks after a failed callback (C05) */
#include <setjmp.h>
object_t *command_giver; time_t current_time; object_t *current_interactive; svalue_t const0;
static pending_call_t A, B, N0, N1, N2;   /* separate objects, not an array (see C12) */ static object_t obA, obB, obN; static char fA[] = "fa", fB[] = "fb", fN[] = "fn";
static int G_firedA, G_firedB, G_firedN, G_resched; static long G_delay, G_new_due_expected = -1; static int G_new_handle;
static long G_fire_time_A = -1, G_fire_time_B = -1;
int save_context(error_context_t *e) { return 1; }
void pop_context(error_context_t *e) { }
void restore_context(error_context_t *e) { }
int setjmp(jmp_buf env) { return 0; }
void transfer_push_some_svalues(svalue_t *v, int n) { }
svalue_t *call_function_pointer(funptr_t *f, int n) { return 0; }
void error(const char *fmt, ...) { V_STOP(); }
svalue_t *apply(const char *fun, object_t *ob, int n, int origin) {
  V_ASSERT(origin == ORIGIN_CALL_OUT && n == 0, "a call_out calls its function with call_out origin and the stored arguments");
  if (ob == &obA && fun == fA) { if (G_firedA < 10) G_firedA++; G_fire_time_A = call_out_time + 1; }
  else if (ob == &obB && fun == fB) { if (G_firedB < 10) G_firedB++; G_fire_time_B = call_out_time + 1; }
  else if (ob == &obN && fun == fN) { if (G_firedN < 10) G_firedN++; }
  else V_ASSERT(0, "only scheduled call_outs are called");
  if (G_resched && G_new_due_expected < 0) {       /* the callback schedules a new call_out once */
    svalue_t f; f.type = T_STRING; f.u.string = fN;
    long eff = G_delay < 1 ? 1 : G_delay;
    G_new_due_expected = (long)current_time + eff;
    G_new_handle = new_call_out(&obN, &f, G_delay, 0, 0);
  }
  return 0;
}
long due_in_slot(pending_call_t *e, long cot, int s) {   /* due time of e computed from slot s of the wheel as it is now, -1 if absent */
  long sum = 0; int k = 0;
  for (pending_call_t *c = call_list[s]; c && k < 4; c = c->next, k++) { sum += c->delta; if (c == e) return due_of(s, cot, sum); }
  return -1;
}

void h_call_out_sweep(void) {
  V_FILL(main_options_t, G_opts, opts); g_main_options = &G_opts;
  V_DECL(long, cot); V_DECL(int, lag); V_DECL(int, n); V_DECL(long, dA); V_DECL(long, dB); V_DECL(int, sA); V_DECL(int, resched); V_DECL(long, delay);
  V_ASSUME(cot >= 1 && cot < (1L << 40) && lag == 1 && 0 <= n && n <= 2 && dA >= 1 && dA <= 3 && dB >= 0 && dB <= 2);
  V_ASSUME(delay == 0 || delay == 1 || delay == 31 || delay == 32 || delay == 33 || delay == 64);
  call_out_time = cot; current_time = cot + lag; G_resched = resched != 0; G_delay = delay;
  /* the slot that is due in the first swept second, or the one after it */
  V_ASSUME(sA == 0 || sA == 1);
  int slot = (int)((cot + 1 + sA) & (W - 1));
  memset(call_list, 0, sizeof(call_list));
  A.delta = dA; B.delta = dB; A.next = n == 2 ? &B : 0; B.next = 0; A.ob = &obA; B.ob = &obB; A.function.s = fA; B.function.s = fB; A.vs = 0; B.vs = 0;
  A.handle = slot + W; B.handle = slot + 2 * W; A.command_giver = 0; B.command_giver = 0;
  call_list[slot] = n >= 1 ? &A : 0;
  long dueA = n >= 1 ? due_of(slot, cot, dA) : -1, dueB = n == 2 ? due_of(slot, cot, dA + dB) : -1;
  N0.next = &N1; N1.next = &N2; N2.next = 0; call_list_free = &N0; unique = 9;
  long now = cot + lag;
  call_out();
  V_ASSERT(call_out_time == now, "the sweep catches up with the clock");
  if (n >= 1) {
    V_ASSERT(G_firedA == (dueA <= now ? 1 : 0), "a call_out fires exactly once in the sweep that reaches its due time, and not before");
    V_ASSERT(dueA > now || G_fire_time_A == dueA, "it fires in the second it is due (backlog is worked off second by second)");
    V_ASSERT(dueA <= now || due_in_slot(&A, now, slot) == dueA, "a call_out that is not yet due keeps its due time");
  }
  if (n == 2) {
    V_ASSERT(G_firedB == (dueB <= now ? 1 : 0), "the second entry fires exactly once iff it is due");
    V_ASSERT(dueB <= now || due_in_slot(&B, now, slot) == dueB, "the second entry keeps its due time while waiting");
  }
  if (G_new_due_expected >= 0) {
    long eff2 = G_delay < 1 ? 1 : G_delay; int nslot = (int)((eff2 + now) & (W - 1));
    long d = due_in_slot(&N0, now, nslot);
    V_ASSERT(G_firedN == 0 && d >= 0, "a call_out scheduled from inside a callback is queued, not called in the same sweep step");
    V_ASSERT(d == G_new_due_expected, "a call_out scheduled from inside a call_out callback is due at now + max(delay,1) - also when it lands in the slot being swept");
  }
  V_COVER(G_firedA == 1 && G_firedB == 1); V_COVER(G_new_due_expected >= 0 && delay == 32); V_COVER(n == 2 && G_firedA == 1 && G_firedB == 0); V_COVER(sA == 1 && G_firedA == 0);
}
