/*@harness
{"tier":"quick","mode":"bounded(3 statements of 0..600 code bytes each, lines 1..1000, one source file; the failing pc is arbitrary)","tus":["lib/lpc/program/icode.c","src/simulate.c","lib/lpc/program.c"],"include_tu":["lib/lpc/program/icode.c"],"dfcc":false,
 "functions":["switch_to_line","find_line","translate_absolute_line","allocate_in_mem_block"],
 "flags":["--bounds-check","--pointer-check"],"unwind":12,"timeout":900,
 "expect":["h_line_table_roundtrip.assertion","switch_to_line.pointer_dereference","find_line.pointer_dereference"],
 "native":null,
 "assumptions":["the generator protocol: switch_to_line(L) is called before the code of a statement on line L is emitted, and switch_to_line(-1) at the end (icode.c i_generate_* callers are not under contract)",
                "one source file (no include boundaries): file_info = {total, 4, lines, file 1}"],
 "notes":"encode/decode lemma over the real line-table writer (switch_to_line, icode.c) and reader (find_line, simulate.c; translate_absolute_line, program.c): a pc inside the code of statement i is reported on statement i's line, also when a statement is longer than 255 bytes and its run is split"}
@*/
#ifdef HAVE_CONFIG_H
#include <config.h>
#endif
#ifndef V_NATIVE
#include "icode.c"          /* scratch copy: last_size_generated / line_being_generated are file-static */
#endif
#include "vharness.h"
#include "src/main.h"
main_options_t *g_main_options; static main_options_t G_opts;
mem_block_t mem_block[NUMAREAS]; int current_block; char *prog_code, *prog_code_max;
int debug_message_with_src(const char *a, const char *b, const char *c, int d, const char *e, ...) { return 0; }
/* the line-number block is pre-sized in the harness: growth (realloc) must not be needed for 9 runs */
void *realloc(void *p, size_t n) { V_ASSERT(0, "harness-sanity: line-number block grows although it was pre-sized"); V_STOP(); return p; }
char *xalloc(size_t n) { char *r = malloc(n); V_ASSUME(r != 0); return r; }
int __CPROVER_file_local_simulate_c_find_line(const char *p, const program_t *progp, char **ret_file, int *ret_line);

void h_line_table_roundtrip(void) {
  static char code[2048]; static char lines[64]; static program_t prog; static unsigned short finfo[4]; static char fname[] = "f.c"; static char *strs[1];
  V_FILL(main_options_t, G_opts, opts); g_main_options = &G_opts;
  current_block = A_PROGRAM;
  mem_block[A_PROGRAM].block = code; mem_block[A_PROGRAM].max_size = sizeof(code); mem_block[A_PROGRAM].current_size = 0;
  mem_block[A_LINENUMBERS].block = lines; mem_block[A_LINENUMBERS].max_size = sizeof(lines); mem_block[A_LINENUMBERS].current_size = 0;
  prog_code = code; prog_code_max = code + sizeof(code);
  last_size_generated = 0; line_being_generated = 0;
  V_DECL(int, l1); V_DECL(int, l2); V_DECL(int, l3); V_DECL(int, s1); V_DECL(int, s2); V_DECL(int, s3);
  V_ASSUME(1 <= l1 && l1 <= 1000 && 1 <= l2 && l2 <= 1000 && 1 <= l3 && l3 <= 1000);
  V_ASSUME(0 <= s1 && s1 <= 600 && 0 <= s2 && s2 <= 600 && 0 <= s3 && s3 <= 600);
  switch_to_line(l1); prog_code += s1;
  switch_to_line(l2); prog_code += s2;
  switch_to_line(l3); prog_code += s3;
  switch_to_line(-1);
  int total = s1 + s2 + s3;
  V_ASSERT(last_size_generated == (size_t)total, "every generated code byte is covered by the line table");
  V_ASSERT(mem_block[A_LINENUMBERS].current_size % 3 == 0 && mem_block[A_LINENUMBERS].current_size <= 27, "the table is a sequence of 3-byte runs");
  /* decode */
  prog.program = code; prog.program_size = (unsigned)total; prog.line_info = (unsigned char *)lines; prog.file_info = finfo; prog.strings = strs; prog.name = fname;
  strs[0] = fname; finfo[0] = 0; finfo[1] = 4; finfo[2] = 1000; finfo[3] = 1;
  V_DECL(int, off); V_ASSUME(1 <= off && off <= total);
  char *file = 0; int line = -1;
  int rc = __CPROVER_file_local_simulate_c_find_line(code + off, &prog, &file, &line);
  int want = off <= s1 ? l1 : (off <= s1 + s2 ? l2 : l3);
  V_ASSERT(rc == 0, "a pc inside the program always has a line");
  V_ASSERT(line == want, "the reported line is the line of the statement whose code contains the pc (runs longer than 255 bytes are split, not lost)");
  V_ASSERT(file == fname, "the reported file is the program's source file");
  V_COVER(s1 > 510 && off > 510 && off <= s1); V_COVER(s1 == 0 && s2 == 0 && off >= 1); V_COVER(off == total && s3 > 255);
}
