/*@harness
{"tier":"quick","mode":"width","tus":["lib/lpc/svalue.c"],"dfcc":false,
 "functions":["assign_svalue_no_free","free_svalue"],
 "flags":["--bounds-check","--pointer-check","--no-simplify"],"unwind":3,"timeout":600,
 "expect":["h_refcount_primitives.assertion","assign_svalue_no_free.pointer_dereference","free_svalue.pointer_dereference"],
 "native":{"rename":["free"]},
 "assumptions":["dealloc_object/dealloc_array/dealloc_class/dealloc_mapping/dealloc_funp/FREE are stubs that record which deallocator ran; free_string_svalue is a stub",
                "the holder of a reference-counted value owns at least one reference (ref >= 1) when it releases it"],
 "notes":"(--no-simplify: with cbmc 6.11 expression simplification the read of the union member u.refed in free_svalue resolves to an invalid object although u.map resolves correctly - a tool artefact, native replay is clean) per-primitive reference-count contract: taking a reference adds exactly one to the mathematical count (no wrap-around), releasing one subtracts exactly one and deallocates iff the count reaches zero, with the deallocator of the value's type"}
@*/
#ifdef HAVE_CONFIG_H
#include <config.h>
#endif
#include "std.h"
#include "lpc/types.h"
#include "lpc/object.h"
#include "lpc/array.h"
#include "lpc/buffer.h"
#include "lpc/mapping.h"
#include "lpc/functional.h"
#include "lpc/class.h"
#include "lpc/svalue.h"
#include "src/main.h"
#include "vharness.h"
main_options_t *g_main_options; static main_options_t G_opts;
/* the counted value: every reference-counted type starts with the 16-bit counter (refed_t view) */
static union { refed_t r; array_t a; object_t o; buffer_t b; } G_obj;
#define G_target (G_obj.r)
static int G_dealloc_kind, G_deallocs, G_strfrees; buffer_t null_buf;
void dealloc_object(object_t *o, const char *c) { G_deallocs++; G_dealloc_kind = T_OBJECT; }
void dealloc_class(array_t *a) { G_deallocs++; G_dealloc_kind = T_CLASS; }
void dealloc_array(array_t *a) { G_deallocs++; G_dealloc_kind = T_ARRAY; }
void dealloc_mapping(mapping_t *m) { G_deallocs++; G_dealloc_kind = T_MAPPING; }
void dealloc_funp(funptr_t *f) { G_deallocs++; G_dealloc_kind = T_FUNCTION; }
void free(void *p) { G_deallocs++; G_dealloc_kind = T_BUFFER; }
void free_string_svalue(svalue_t *v) { G_strfrees++; }
int debug_message_with_src(const char *a, const char *b, const char *c, int d, const char *e, ...) { return 0; }
void assign_svalue_no_free(svalue_t *to, svalue_t *from);

void h_refcount_primitives(void) {
  V_FILL(main_options_t, G_opts, opts); g_main_options = &G_opts;
  V_DECL(int, kind); V_DECL(v_ushort, ref0); V_DECL(int, op);
  V_ASSUME(kind == T_ARRAY || kind == T_OBJECT || kind == T_MAPPING || kind == T_FUNCTION || kind == T_BUFFER || kind == T_CLASS);
#ifdef V_KF_EXCLUDE_C06_1
  V_ASSUME(ref0 < 65535);                 /* known finding C06-1: 16-bit counters wrap at 65535 holders */
#endif
  G_target.ref = ref0;
  static svalue_t from, to; from.type = (short)kind; from.subtype = 0; from.u.refed = &G_target; to.type = T_NUMBER; to.u.number = 0;
  if (op == 0) {
    assign_svalue_no_free(&to, &from);
    V_ASSERT((long)G_target.ref == (long)ref0 + 1, "taking a reference adds exactly one to the count (a value shared by more than 65535 holders must not wrap the counter)");
    V_ASSERT(to.type == from.type && to.u.refed == &G_target, "the copy refers to the same value");
    V_COVER(ref0 == 7);
  } else {
    V_ASSUME(ref0 >= 1);
    free_svalue(&from, "harness");
    V_ASSERT((long)G_target.ref == (long)ref0 - 1, "releasing a reference subtracts exactly one");
    V_ASSERT((G_deallocs == 1) == (ref0 == 1) && G_deallocs <= 1, "the value is deallocated iff the last reference was released, and once");
    V_ASSERT(G_deallocs == 0 || G_dealloc_kind == kind, "the deallocator of the value's own type runs");
    V_COVER(G_deallocs == 1 && kind == T_MAPPING); V_COVER(G_deallocs == 0 && ref0 == 2);
  }
}
