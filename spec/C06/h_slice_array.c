/*@harness
{"tier":"quick","mode":"bounded(arrays of 1..4 elements, reference count 1 or 2, every from/to)","tus":["lib/lpc/array.c"],"dfcc":false,
 "functions":["slice_array"],
 "stub_out":["free_array","allocate_empty_array"],
 "flags":["--bounds-check","--pointer-check","--no-malloc-may-fail"],"unwind":7,"timeout":600,
 "expect":["h_slice_array.assertion","slice_array.pointer_dereference"],
 "ignore":[{"class":"overflow","text_contains":"total_array_size","why":"ARRAY_STATS counters"},{"class":"overflow","text_contains":"num_arrays","why":"ARRAY_STATS counters"},
           {"class":"array_bounds","text_contains":"->item","why":"struct-hack member item[1] (elements are reached by pointer arithmetic, checked against the block)"},
           {"class":"pointer_arithmetic","text_contains":"d->item - from","why":"biased base pointer (d->item - from) is only ever dereferenced with an offset >= from; ISO C frowns, memory is not touched"}],
 "native":{"rename":["realloc"]},
 "assumptions":["free_svalue / assign_svalue_no_free are counting stubs keyed by the element's identity (the elements are the numbers 0..3): they record one release / one new reference",
                "realloc shrinks in place; allocate_empty_array returns a fresh 4-slot block; free_array records the call"],
 "notes":"C06 reference balance of array ranges (F_RANGE / F_EXTRACT_RANGE on arrays): every element cut off is released exactly once, every element kept is neither released nor duplicated (in-place branch) or gains exactly one reference (copy branch)"}
@*/
#ifdef HAVE_CONFIG_H
#include <config.h>
#endif
#include "src/std.h"
#include "lpc/types.h"
#include "lpc/array.h"
#include "rc.h"
#include "src/main.h"
#include "vharness.h"
main_options_t *g_main_options; static main_options_t G_opts;
int config_int[NUM_CONFIG_INTS];
svalue_t const0, const0u;
static int G_freed[4], G_refd[4], G_free_array_calls, G_bad_id;
typedef union { array_t a; char raw[sizeof(array_t) + 3 * sizeof(svalue_t)]; } arr4_t;
static arr4_t G_src, G_dst;
void error(const char *fmt, ...) { V_STOP(); }
void fatal(char *fmt, ...) { V_STOP(); }
int debug_message_with_src(const char *a, const char *b, const char *c, int d, const char *e, ...) { return 0; }
void free_svalue(svalue_t *v, const char *why) { int64_t id = v->u.number; if (v->type == T_NUMBER && 0 <= id && id < 4) { if (G_freed[id] < 10) G_freed[id]++; } else G_bad_id = 1; }
void assign_svalue_no_free(svalue_t *to, svalue_t *from) { int64_t id = from->u.number; *to = *from; if (from->type == T_NUMBER && 0 <= id && id < 4) { if (G_refd[id] < 10) G_refd[id]++; } else G_bad_id = 1; }
void free_array(array_t *a) { if (G_free_array_calls < 10) G_free_array_calls++; }
void *realloc(void *p, size_t n) { V_ASSERT(p == (void *)&G_src && n <= sizeof(arr4_t), "the array block is resized in place to no more than it was"); return p; }
array_t *allocate_empty_array(size_t n) { V_ASSERT(n <= 4, "allocation fits the harness block"); G_dst.a.ref = 1; G_dst.a.size = (unsigned short)n; return &G_dst.a; }
array_t *slice_array(array_t *p, int from, int to);

void h_slice_array(void) {
  V_FILL(main_options_t, G_opts, opts); g_main_options = &G_opts;
  config_int[__MAX_ARRAY_SIZE__ - BASE_CONFIG_INT] = 100;
  V_DECL(int, n); V_DECL(int, ref); V_DECL(int, from); V_DECL(int, to);
  V_ASSUME(1 <= n && n <= 4 && 1 <= ref && ref <= 2);
  array_t *p = &G_src.a; svalue_t *it = p->item;
  p->ref = (unsigned short)ref; p->size = (unsigned short)n;
  for (int i = 0; i < 4; i++) { it[i].type = T_NUMBER; it[i].subtype = 0; it[i].u.number = i; }
  int lo = from < 0 ? 0 : from, hi = to >= n ? n - 1 : to;       /* the range the caller is entitled to */
  V_COVER(ref == 1 && n == 4 && from == 1 && to == 2);
  V_COVER(ref == 2 && n == 3 && from == 1 && to == 5);
  array_t *r = slice_array(p, from, to);
  V_ASSERT(!G_bad_id, "only elements of the operand are released or referenced");
  if (lo > hi) {
    V_ASSERT(r == &the_null_array && G_free_array_calls == 1, "an empty range releases the operand once and yields the shared empty array");
    return;
  }
  V_CHECK(r != 0 && r->size == hi - lo + 1 && r->ref == 1, "the result holds exactly the elements lo..hi and one reference");
  svalue_t *rit = r->item;
  for (int i = 0; i < 4; i++) if (i < n) {
    int kept = lo <= i && i <= hi;
    if (ref == 1) V_ASSERT(G_freed[i] == (kept ? 0 : 1) && G_refd[i] == 0, "in-place range of an unshared array: every element cut off is released exactly once, every element kept is untouched");
    else V_ASSERT(G_freed[i] == 0 && G_refd[i] == (kept ? 1 : 0), "range of a shared array: every element kept gains exactly one reference, nothing is released");
    if (kept) V_ASSERT(rit[i - lo].type == T_NUMBER && rit[i - lo].u.number == i, "the result element is the operand's element of the same position");
  }
  V_ASSERT(ref == 1 ? r == p : (r == &G_dst.a && p->ref == 1), "an unshared operand is reused, a shared one gives up one reference");
}
