/*@harness
{"tier":"quick","mode":"bounded(one sweep second over a slot holding 2 due call_outs; each callback either runs or fails with arbitrary error-state flags)","tus":["lib/efuns/call_out.c","src/frame.c"],"include_tu":["lib/efuns/call_out.c"],"dfcc":false,
 "functions":["call_out","free_called_call","free_call","set_error_state","get_error_state","clear_error_state"],
 "flags":["--bounds-check","--pointer-check"],"unwind":4,"timeout":900,
 "expect":["h_call_out_isolation.assertion","apply.assertion","call_out.pointer_dereference"],
 "native":null,
 "assumptions":["setjmp is modelled by a stub: 0 = the callback of this entry is about to run; 1 = it ran and failed somewhere, leaving arbitrary limit marks (ES_MAX_EVAL_COST / ES_STACK_FULL) set, as eval_instruction / push_control_stack do before raising",
                "restore_context / save_context / pop_context of the sweep's own error context are stubs except that pop_context clears the error state as the real one does; reference-count primitives are stubs"],
 "notes":"C05 'later evaluations behave as if the failed one had never started': when a call_out fails with a limit error, the next call_out of the same sweep starts with no limit mark set (a stale mark makes its catch() refuse an ordinary error)"}
@*/
#include "C10/c10_env.h"
#include <setjmp.h>
#include "src/interpret.h"
object_t *command_giver; time_t current_time; object_t *current_interactive; svalue_t const0;
static pending_call_t A, B; static object_t obA, obB; static char fA[] = "fa", fB[] = "fb";
static int G_runs, G_failures;
int save_context(error_context_t *e) { return 1; }
void pop_context(error_context_t *e) { clear_error_state(); }
void restore_context(error_context_t *e) { }
int setjmp(jmp_buf env) {
  V_DECL(int, thrown); V_DECL(int, bits);
  if (thrown) {
    if (G_failures < 10) G_failures++;
    if (bits & 1) set_error_state(ES_MAX_EVAL_COST);
    if (bits & 2) set_error_state(ES_STACK_FULL);
    return 1;
  }
  return 0;
}
void transfer_push_some_svalues(svalue_t *v, int n) { }
svalue_t *call_function_pointer(funptr_t *f, int n) { return 0; }
void error(const char *fmt, ...) { V_STOP(); }
svalue_t *apply(const char *fun, object_t *ob, int n, int origin) {
  if (G_runs < 10) G_runs++;
  V_ASSERT(get_error_state(ES_MAX_EVAL_COST | ES_STACK_FULL) == 0, "a call_out's evaluation starts with no limit mark left over from a call_out that failed before it");
  return 0;
}

void h_call_out_isolation(void) {
  static control_stack_t cs[4];
  V_FILL(main_options_t, G_opts, opts); g_main_options = &G_opts;
  V_DECL(long, cot); V_ASSUME(cot >= 1 && cot < (1L << 40));
  call_out_time = cot; current_time = cot + 1; clear_error_state();
  int slot = (int)((cot + 1) & (W - 1));
  memset(call_list, 0, sizeof(call_list));
  A.delta = 1; B.delta = 0; A.next = &B; B.next = 0; A.ob = &obA; B.ob = &obB; A.function.s = fA; B.function.s = fB; A.vs = 0; B.vs = 0;
  A.handle = slot + W; B.handle = slot + 2 * W; A.command_giver = 0; B.command_giver = 0;
  call_list[slot] = &A; call_list_free = 0;
  call_out();
  V_ASSERT(get_error_state(ES_MAX_EVAL_COST | ES_STACK_FULL) == 0, "after the sweep no limit mark is left for whatever the driver runs next");
  V_COVER(G_failures == 1 && G_runs == 1);
  V_COVER(G_runs == 2);
}
