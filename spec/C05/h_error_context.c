/*@harness
{"tier":"quick","mode":"bounded(chain of at most 3 enclosing error contexts; call depth limit, stack pointers and registers symbolic)","tus":["src/error_context.c","src/frame.c"],"include_tu":["src/error_context.c"],"dfcc":false,"stub_out":["error_handler","error","bad_arg","bad_argument"],
 "functions":["save_context","restore_context","pop_context","pop_control_stack","clear_error_state"],
 "flags":["--bounds-check","--pointer-check"],"unwind":6,"timeout":600,
 "expect":["h_error_context.assertion","save_context.pointer_dereference","restore_context.pointer_dereference"],
 "native":null,
 "assumptions":["pop_n_elems stub lowers sp by the count it is given (freeing the values is C06 territory)",
                "the longjmp itself (error_handler) and the users of these primitives (do_catch, safe_apply, backend, call_out) are not under contract here"],
 "notes":"save/restore/pop contract of the error-context primitives with the real pop_control_stack: after restore the value stack, control stack, command giver and frame registers are those saved; pop unlinks exactly one context and clears the error state"}
@*/
#ifdef HAVE_CONFIG_H
#include <config.h>
#endif
#ifndef V_NATIVE
#include "error_context.c"     /* scratch copy: current_error_context is file-static */
#endif
#include "std.h"
#include "lpc/object.h"
#include "lpc/program.h"
#include "interpret.h"
#include "error_context.h"
#include "rc/rc.h"
#include "src/main.h"
#include "vharness.h"
main_options_t *g_main_options; static main_options_t G_opts;
int config_int[NUM_CONFIG_INTS];
svalue_t *sp; object_t *command_giver, *current_object, *previous_ob; program_t *current_prog; int caller_type; char *pc; svalue_t *fp;
int function_index_offset, variable_index_offset;
static long G_popped_total;
void pop_n_elems(size_t n) { V_ASSERT((long)n >= 0 && n <= 64, "restore never pops a negative number of values"); sp -= n; G_popped_total += (long)n; }
void error_handler(const char *m) { V_STOP(); }
void error(const char *f, ...) { V_STOP(); }
void bad_arg(int a, int b) { V_STOP(); }
void bad_argument(svalue_t *v, int a, int b, int c) { V_STOP(); }
int debug_message_with_src(const char *a, const char *b, const char *c, int d, const char *e, ...) { return 0; }

void h_error_context(void) {
  static control_stack_t cs[16]; static svalue_t vs[64]; static error_context_t outer[3], me; static object_t giver, other;
  V_FILL(main_options_t, G_opts, opts); g_main_options = &G_opts;
  control_stack = cs;
  V_DECL(int, maxd); V_ASSUME(2 <= maxd && maxd <= 16); config_int[__MAX_CALL_DEPTH__ - BASE_CONFIG_INT] = maxd;
  V_DECL(int, d0); V_DECL(int, s0); V_DECL(int, nctx); V_DECL(int, has_giver);
  V_ASSUME(0 <= d0 && d0 <= maxd - 1 && 0 <= s0 && s0 < 40 && 0 <= nctx && nctx <= 3);
  csp = &cs[d0]; sp = &vs[s0]; command_giver = has_giver ? &giver : 0;
  outer[0].save_context = 0; outer[1].save_context = &outer[0]; outer[2].save_context = &outer[1];
  current_error_context = nctx ? &outer[nctx - 1] : 0;
  error_context_t *before = current_error_context;
  /* ---- save ---- */
  int r = save_context(&me);
  if (d0 == maxd - 1) {
    V_ASSERT(r == 0 && current_error_context == before, "at the call-depth limit save_context refuses (answers 0) and changes nothing");
  } else {
    V_ASSERT(r == nctx + 1, "save_context answers the nesting depth of error contexts");
    V_ASSERT(me.save_sp == &vs[s0] && me.save_csp == &cs[d0] && me.save_command_giver == command_giver && me.save_context == before && current_error_context == &me,
             "save_context records value stack, control stack, command giver and the enclosing context, and becomes the innermost context");
    /* ---- the evaluation pushes frames and values, changes the command giver, then fails ---- */
    V_DECL(int, dd); V_DECL(int, ds); V_ASSUME(0 <= dd && dd <= 3 && d0 + dd <= maxd - 1 && 0 <= ds && ds <= 20);
    object_t *cur0 = current_object; program_t *prog0 = current_prog;
    for (int i = 1; i <= 3; i++) if (i <= dd) {           /* frames pushed by the failed evaluation: frame d0+1 holds the registers at the catch point */
      cs[d0 + i].ob = (i == 1) ? cur0 : &other; cs[d0 + i].prog = (i == 1) ? prog0 : 0; cs[d0 + i].framekind = FRAME_FUNCTION;
    }
    csp = &cs[d0 + dd]; sp = &vs[s0 + ds]; command_giver = &other; current_object = &other; current_prog = 0;
    V_DECL(int, what);
    if (what) {
      restore_context(&me);
      V_ASSERT(sp == &vs[s0] && G_popped_total == ds, "restore_context pops the value stack back to exactly the saved height");
      V_ASSERT(csp == &cs[d0], "restore_context unwinds the control stack back to the saved frame");
      V_ASSERT(command_giver == (has_giver ? &giver : 0), "restore_context restores the command giver");
      V_ASSERT(dd == 0 || (current_object == cur0 && current_prog == prog0), "the frame registers (current object, program) are those of the catch point");
      V_ASSERT(current_error_context == &me, "restore leaves the context chain alone (pop_context unlinks it)");
    }
    set_error_state(ES_STACK_FULL);
    pop_context(&me);
    V_ASSERT(current_error_context == before, "pop_context unlinks exactly this context: the enclosing handler chain is what it was before");
    V_ASSERT(get_error_state(-1) == 0, "leaving the context clears the error state");
  }
  V_COVER(r == 0); V_COVER(r == 4); V_COVER(r == 1 && d0 == 0);
}
