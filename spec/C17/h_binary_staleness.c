/*@harness
{"tier":"quick","mode":"width","tus":["lib/lpc/program/binaries.c"],"dfcc":false,
 "functions":["load_binary","check_times"],
 "flags":["--bounds-check","--pointer-check"],"unwind":8,"timeout":600,
 "expect":["fread.assertion","h_binary_staleness.assertion"],
 "native":null,
 "assumptions":["open/fstat/fdopen/stat/fread/sprintf are stubs: the binary's and the source's modification times are arbitrary, stat may fail",
                "the harness stops at the first read of the binary's content: only the source-file staleness gate of load_binary is decided here (include, inherit, simul_efun and driver-id gates are behind it)"],
 "notes":"staleness gate: the content of a saved binary is read only if the source file exists and is not newer than the binary; check_times itself: -1 iff stat fails, 0 iff newer, else 1"}
@*/
#ifdef HAVE_CONFIG_H
#include <config.h>
#endif
#include "src/std.h"
#include "rc.h"
#include "lpc/types.h"
#include "lpc/program.h"
#include "src/main.h"
#include "vharness.h"
#include <sys/stat.h>
#include <stdio.h>
#include <stdarg.h>
main_options_t *g_main_options; static main_options_t G_opts;
char *config_str[NUM_CONFIG_STRS]; int num_parse_error; int comp_flag;
static long G_bin_mtime, G_src_mtime; static int G_src_stat_fails, G_open_fails, G_fstat_fails, G_fdopen_fails;
static int G_reads, G_stats; static const char *G_src_name; static FILE *G_f;
program_t *load_binary(const char *name);
int debug_message_with_src(const char *a, const char *b, const char *c, int d, const char *e, ...) { return 0; }
int sprintf(char *d, const char *fmt, ...) { d[0] = 'b'; d[1] = '/'; d[2] = 'x'; d[3] = '.'; d[4] = 'c'; d[5] = 0; return 5; }
int open(const char *p, int fl, ...) { return G_open_fails ? -1 : 9; }
int fstat(int fd, struct stat *st) { V_ASSERT(fd == 9, "fstat on the opened binary"); if (G_fstat_fails) return -1; st->st_mtime = G_bin_mtime; return 0; }
FILE *fdopen(int fd, const char *m) { if (G_fdopen_fails) return 0; G_f = (FILE *)malloc(8); V_ASSUME(G_f != 0); return G_f; }
int close(int fd) { return 0; }
int fclose(FILE *f) { return 0; }
int stat(const char *p, struct stat *st) {
  V_ASSERT(p == G_src_name, "the first file checked against the binary is the program's own source file");
  if (G_stats < 10) G_stats++;
  if (G_src_stat_fails) return -1; st->st_mtime = G_src_mtime; return 0;
}
size_t fread(void *p, size_t a, size_t b, FILE *f) {
  V_ASSERT(G_stats >= 1 && !G_src_stat_fails && G_src_mtime <= G_bin_mtime, "the saved binary's content is read only when its source file exists and is not newer than the binary");
  if (G_reads < 10) G_reads++;
  V_STOP();            /* the gates behind this point (includes, inherits, ids) are not part of this harness */
  return 0;
}
char *xalloc(size_t n) { char *r = malloc(n); V_ASSUME(r != 0); return r; }

void h_binary_staleness(void) {
  static char name[] = "x.c"; static char dir[] = "b";
  V_FILL(main_options_t, G_opts, opts); g_main_options = &G_opts;
  V_DECL(long, bm); V_DECL(long, sm); V_DECL(int, f1); V_DECL(int, f2); V_DECL(int, f3); V_DECL(int, f4); V_DECL(int, has_dir);
  G_bin_mtime = bm; G_src_mtime = sm; G_src_stat_fails = f1 != 0; G_open_fails = f2 != 0; G_fstat_fails = f3 != 0; G_fdopen_fails = f4 != 0;
  config_str[__SAVE_BINARIES_DIR__ - BASE_CONFIG_STR] = has_dir ? &dir[0] : (char *)0;
  G_src_name = name;
  program_t *p = load_binary(name);
  /* reaching here means load_binary returned before reading any content */
  V_ASSERT(p == 0 && G_reads == 0, "without a usable, up-to-date binary load_binary answers 'out of date' (NULL)");
  V_ASSERT(!(has_dir && !G_open_fails && !G_fstat_fails && !G_fdopen_fails) || G_stats == 1, "the source file's time is always consulted before the binary is used");
  V_COVER(G_stats == 1 && sm > bm); V_COVER(G_stats == 1 && G_src_stat_fails); V_COVER(!has_dir);
}
