/*@harness
{"tier":"quick","mode":"width","tus":["lib/lpc/program/binaries.c"],"dfcc":false,
 "functions":["v_inherit_gate","check_times"],
 "flags":["--bounds-check","--pointer-check"],"unwind":12,"timeout":600,
 "expect":["h_inherit_gate.assertion","v_inherit_gate.pointer_dereference"],
 "native":null,
 "assumptions":["the statements of load_binary's inherit loop between `sprintf (file_name_two, ...` and the lookup of the inherited object are extracted mechanically on every run (byte-for-byte copy into a function of their own; locals are supplied by the harness: name of the inherited program, path buffer, modification time of the binary being loaded); dropped: everything before and after in load_binary",
                "stat is a stub over a two-file world: the inherited program's source and its saved binary under SaveBinariesDir, each present or absent with an arbitrary modification time; any other path does not exist and is recorded",
                "sprintf(\"%s/%s\") is a concatenating stub; fclose/free_string/free are inert"],
 "notes":"C17 staleness through inheritance: a saved binary is kept only if the inherited program's source exists and is not newer, and the inherited program's own saved binary (looked up under its real path) is not newer either"}
@*/
/*@extract file=lib/lpc/program/binaries.c function=load_binary from="sprintf (file_name_two, \"%s/%s\", CONFIG_STR (__SAVE_BINARIES_DIR__), buf);" to="ob = find_object_by_name (buf);" name=v_inherit_gate wrap=block ret="program_t *" tail="return (program_t *)&G_pass;"
  extern char G_path[64], G_inh[16]; extern long G_my_mtime; extern program_t G_prog, G_pass;
  char *file_name_two = G_path; char *buf = G_inh; size_t len = 0; time_t mtime = (time_t)G_my_mtime; FILE *f = 0; program_t *p = &G_prog;
@*/
#ifdef HAVE_CONFIG_H
#include <config.h>
#endif
#include "src/std.h"
#include "rc.h"
#include "lpc/types.h"
#include "lpc/program.h"
#include "src/main.h"
#include "vharness.h"
#include <sys/stat.h>
#include <stdio.h>
#include <stdarg.h>
main_options_t *g_main_options; static main_options_t G_opts;
char *config_str[NUM_CONFIG_STRS]; int num_parse_error; int comp_flag;
char G_path[64], G_inh[16]; long G_my_mtime; program_t G_prog, G_pass;
static char G_want_bin[32];
static long G_src_mtime, G_bin_mtime; static int G_src_exists, G_bin_exists, G_unknown_path, G_stats;
program_t *v_inherit_gate(void);
int debug_message_with_src(const char *a, const char *b, const char *c, int d, const char *e, ...) { return 0; }
static int v_eq(const char *a, const char *b) { for (int i = 0; i < 40; i++) { if (a[i] != b[i]) return 0; if (!a[i]) return 1; } return 0; }
int sprintf(char *d, const char *fmt, ...) {
  va_list ap; va_start(ap, fmt); const char *a = va_arg(ap, const char *); const char *b = va_arg(ap, const char *); va_end(ap);
  V_ASSERT(v_streq(fmt, "%s/%s"), "harness-sanity: unexpected call: sprintf format"); int k = 0;
  for (int i = 0; i < 20 && a[i]; i++) d[k++] = a[i];
  d[k++] = '/';
  for (int i = 0; i < 20 && b[i]; i++) d[k++] = b[i];
  d[k] = 0; return k;
}
int stat(const char *p, struct stat *st) {
  if (G_stats < 10) G_stats++;
  if (v_eq(p, G_inh)) { if (!G_src_exists) return -1; st->st_mtime = G_src_mtime; return 0; }
  if (v_eq(p, G_want_bin)) { if (!G_bin_exists) return -1; st->st_mtime = G_bin_mtime; return 0; }
  G_unknown_path = 1; return -1;
}
int fclose(FILE *f) { return 0; }
void free_string(char *s) { }
void free(void *p) { }
char *xalloc(size_t n) { char *r = malloc(n); V_ASSUME(r != 0); return r; }

void h_inherit_gate(void) {
  static char dir0[] = "bin", dir1[] = "/bin";
  V_FILL(main_options_t, G_opts, opts); g_main_options = &G_opts;
  V_DECL(long, mine); V_DECL(long, sm); V_DECL(long, bm); V_DECL(int, se); V_DECL(int, be); V_DECL(int, lead);
  G_my_mtime = mine; G_src_mtime = sm; G_bin_mtime = bm; G_src_exists = se != 0; G_bin_exists = be != 0;
  config_str[__SAVE_BINARIES_DIR__ - BASE_CONFIG_STR] = lead ? dir1 : dir0;
  const char inh[] = "i/p.c"; for (int i = 0; i < 6; i++) G_inh[i] = inh[i];
  const char wb[] = "bin/i/p.b"; for (int i = 0; i < 10; i++) G_want_bin[i] = wb[i];
  V_COVER(se && be && sm <= mine && bm <= mine);
  program_t *r = v_inherit_gate();
  if (r == &G_pass) {
    /* the gate let the binary through */
    V_ASSERT(G_src_exists && G_src_mtime <= G_my_mtime, "a saved binary is kept only if the inherited program's source exists and is not newer");
    V_ASSERT(!G_bin_exists || G_bin_mtime <= G_my_mtime, "and the inherited program's own saved binary is not newer either");
    V_ASSERT(!G_unknown_path, "the inherited program's saved binary is looked up under its real path (SaveBinariesDir/<name>.b)");
    V_COVER(G_bin_exists);
  } else {
    V_ASSERT(r == 0 || r == (program_t *)-1 || r != &G_pass, "rejected");
    V_ASSERT(!(G_src_exists && G_src_mtime <= G_my_mtime && (!G_bin_exists || G_bin_mtime <= G_my_mtime) && !G_unknown_path) , "an up-to-date pair is not rejected by this gate");
    V_COVER(G_bin_exists && G_bin_mtime > G_my_mtime && G_src_mtime <= G_my_mtime && G_src_exists);
  }
}
