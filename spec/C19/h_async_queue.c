/*@harness
{"tier":"quick","mode":"bounded(capacity <= 4 slots, message size <= 8 bytes; all indices, flags and contents symbolic)","tus":["lib/async/async_queue.c"],"include_tu":true,"dfcc":false,
 "functions":["async_queue_enqueue","async_queue_dequeue","async_queue_clear","get_slot"],
 "flags":["--bounds-check","--pointer-check","--unsigned-overflow-check"],"unwind":6,"timeout":900,
 "ignore":[{"class":"overflow","text_contains":"enqueue_count++","why":"64-bit statistics counter"},{"class":"overflow","text_contains":"dequeue_count++","why":"64-bit statistics counter"},{"class":"overflow","text_contains":"dropped_count++","why":"64-bit statistics counter"}],
 "expect":["h_async_queue.assertion","async_queue_enqueue.pointer_dereference","platform_mutex_lock.assertion"],
 "native":{},
 "assumptions":["platform_mutex_lock/unlock and platform_event_set/wait are stubs that only track the lock discipline (sequential core; thread interleavings are not addressed by contracts)",
                "platform_event_wait models the consumer: it may dequeue any number of messages while the writer sleeps"],
 "notes":"sequential contract of the message queue: ring invariant, FIFO hand-over, drop-oldest accounting, slot arithmetic in bounds, lock held exactly around the critical section"}
@*/
#ifndef V_NATIVE
#include "async_queue.c"        /* scratch copy of the real TU: struct async_queue_s is private to it */
#endif
#include "vharness.h"
#define CAP_MAX 4
#define MSG_MAX 8
static int G_locked, G_lock_errors, G_waits;
static async_queue_t *G_q;
#define RINGQ(q) ((q)->capacity >= 1 && (q)->capacity <= CAP_MAX && (q)->max_msg_size >= 1 && (q)->max_msg_size <= MSG_MAX && \
                  (q)->msg_slot_size == (q)->max_msg_size + sizeof(size_t) && (q)->head < (q)->capacity && (q)->tail < (q)->capacity && \
                  (q)->count <= (q)->capacity && (q)->head == ((q)->tail + (q)->count) % (q)->capacity)
void platform_mutex_lock(platform_mutex_t *m) { V_ASSERT(m == &G_q->mutex && !G_locked, "the queue mutex is taken when not already held"); G_locked = 1; }
void platform_mutex_unlock(platform_mutex_t *m) { V_ASSERT(m == &G_q->mutex && G_locked, "the queue mutex is released only while held"); G_locked = 0; }
void platform_event_set(platform_event_t *e) { V_ASSERT(G_locked, "events are signalled inside the critical section"); }
bool platform_event_wait(platform_event_t *e, int timeout_ms) {
  V_ASSERT(!G_locked, "the writer never sleeps holding the mutex");
  /* the consumer runs meanwhile: it takes k messages from the tail */
  V_DECL(size_t, consumed); V_ASSUME(consumed <= G_q->count);
  G_q->tail = (G_q->tail + consumed) % G_q->capacity; G_q->count -= consumed;
  if (G_waits < 100) G_waits++;
  V_ASSUME(G_waits <= 3);        /* bounded patience of the model: at most 3 sleeps */
  return true;
}
static size_t slot_len(async_queue_t *q, size_t i) { return *(size_t *)((char *)q->buffer + i * q->msg_slot_size); }
static unsigned char slot_byte(async_queue_t *q, size_t i, size_t b) { return *((unsigned char *)q->buffer + i * q->msg_slot_size + sizeof(size_t) + b); }

void h_async_queue(void) {
  V_NEW(async_queue_t, q);
  V_ASSUME(RINGQ(q) && q->dropped_count < (1ULL << 62));
  q->buffer = malloc(q->capacity * q->msg_slot_size); V_ASSUME(q->buffer != 0);
  G_q = q;
  /* every occupied slot holds a well-formed length */
  V_DECL(size_t, j); V_ASSUME(j < q->capacity);          /* ghost: an arbitrary slot */
  V_DECL(size_t, jb); V_ASSUME(jb < MSG_MAX);              /* ghost: an arbitrary byte of it */
  V_ASSUME(slot_len(q, q->tail) >= 1 && slot_len(q, q->tail) <= q->max_msg_size);
  size_t j_len0 = slot_len(q, j); unsigned char j_byte0 = slot_byte(q, j, jb < q->max_msg_size ? jb : 0);
  size_t head0 = q->head, tail0 = q->tail, count0 = q->count; uint64_t dropped0 = q->dropped_count;
  V_DECL(int, which);
  if (which == 0) {
    V_DECL(size_t, size); unsigned char data[MSG_MAX];
    V_DECL(v_uchar, d0); data[0] = d0;
    bool r = async_queue_enqueue(q, data, size);
    V_ASSERT(!G_locked, "enqueue returns with the mutex released");
    V_ASSERT(RINGQ(q), "enqueue keeps the ring invariant");
    if (r) {
      V_ASSERT(size >= 1 && size <= q->max_msg_size, "only messages of a legal size are accepted");
      size_t at = (q->head + q->capacity - 1) % q->capacity;     /* the slot just written */
      V_ASSERT(slot_len(q, at) == size && slot_byte(q, at, 0) == d0, "the accepted message is stored at the head slot with its length");
      if (G_waits == 0) {
        V_ASSERT(at == head0, "the message goes to the old head position");
        size_t drops = (count0 >= q->capacity) ? 1 : 0;
        V_ASSERT(q->dropped_count == dropped0 + drops && (!drops || (q->flags & ASYNC_QUEUE_DROP_OLDEST)), "a message is dropped only when the queue is full and the policy is drop-oldest, and exactly the oldest one");
        V_ASSERT(q->tail == (tail0 + drops) % q->capacity && q->count == count0 - drops + 1, "enqueue advances the tail only by the dropped messages and the count by one");
        V_ASSERT(j == at || (slot_len(q, j) == j_len0 && slot_byte(q, j, jb < q->max_msg_size ? jb : 0) == j_byte0), "enqueue leaves every other slot untouched");
      }
    } else {
      V_ASSERT(size == 0 || size > q->max_msg_size || (count0 >= q->capacity && !(q->flags & (ASYNC_QUEUE_DROP_OLDEST | ASYNC_QUEUE_BLOCK_WRITER))) || G_waits > 0,
               "enqueue refuses only an illegal size or a full queue without an overflow policy");
      V_ASSERT(G_waits > 0 || (q->head == head0 && q->tail == tail0 && q->count == count0), "a refused enqueue changes nothing");
    }
    V_COVER(r && count0 == q->capacity); V_COVER(!r && size >= 1 && size <= q->max_msg_size); V_COVER(r && G_waits > 0);
  } else if (which == 1) {
    unsigned char out[MSG_MAX]; size_t outsz = 99; V_DECL(size_t, bufsz); V_ASSUME(bufsz <= MSG_MAX);
    size_t len0 = slot_len(q, tail0); unsigned char b0 = slot_byte(q, tail0, 0);
    bool r = async_queue_dequeue(q, out, bufsz, &outsz);
    V_ASSERT(!G_locked, "dequeue returns with the mutex released");
    V_ASSERT(RINGQ(q), "dequeue keeps the ring invariant");
    if (r) {
      V_ASSERT(count0 > 0 && outsz == len0 && out[0] == b0, "dequeue hands over the oldest message (the one at the tail) with its length");
      V_ASSERT(q->tail == (tail0 + 1) % q->capacity && q->count == count0 - 1 && q->head == head0, "dequeue consumes exactly one message");
    } else {
      V_ASSERT(count0 == 0 || len0 > bufsz, "dequeue fails only on an empty queue or a too small buffer");
      V_ASSERT(q->tail == tail0 && q->count == count0 && q->head == head0, "a failed dequeue changes nothing");
    }
    V_COVER(r && count0 == q->capacity); V_COVER(!r && count0 > 0);
  } else {
    async_queue_clear(q);
    V_ASSERT(!G_locked && RINGQ(q) && q->count == 0, "clear empties the queue");
  }
}
