/*@harness
{"tier":"quick","mode":"bounded(at most 2 posts and 1 wake-up between two waits; keys and data symbolic 32-bit)","tus":["lib/async/async_runtime_epoll.c"],"include_tu":true,"dfcc":false,
 "functions":["async_runtime_post_completion","async_runtime_wakeup","async_runtime_wait"],
 "flags":["--bounds-check","--pointer-check"],"unwind":6,"timeout":600,
 "expect":["h_eventfd_notify.assertion","async_runtime_wait.pointer_dereference"],
 "native":{"rename":["write","read","epoll_wait"]},
 "assumptions":["trusted kernel model of eventfd(2): write adds the 8-byte value to a 64-bit counter, read returns the counter and zeroes it, EAGAIN at 0; epoll_wait reports the eventfd readable iff the counter is non-zero",
                "posts happen-before the wait (sequential core of C19; thread interleavings are not addressed)"],
 "notes":"lemma over the post/wake-up/wait contracts: every completion posted before a wait is delivered by that wait exactly once with its key and data; wake-ups produce no completion"}
@*/
#ifndef V_NATIVE
#include "async_runtime_epoll.c"    /* scratch copy of the real TU: struct async_runtime_s is private to it */
#endif
#include "vharness.h"
#include <errno.h>
static uint64_t G_counter;          /* the kernel's eventfd counter */
static int G_efd = 7, G_epfd = 5;
static int G_locked;
bool platform_mutex_init(platform_mutex_t *m) { return 1; }
void platform_mutex_destroy(platform_mutex_t *m) { }
void platform_mutex_lock(platform_mutex_t *m) { V_ASSERT(!G_locked, "the pending-completion lock is not taken twice"); G_locked = 1; }
void platform_mutex_unlock(platform_mutex_t *m) { V_ASSERT(G_locked, "the pending-completion lock is released only while held"); G_locked = 0; }
static int G_errno_v; int *__errno_location(void) { return &G_errno_v; }
ssize_t write(int fd, const void *buf, size_t n) {
  V_ASSERT(fd == G_efd && n == 8, "completions are written to the eventfd as one 8-byte value");
  uint64_t v = *(const uint64_t *)buf;
  G_counter += v;                   /* eventfd semantics: values ADD UP */
  return 8;
}
ssize_t read(int fd, void *buf, size_t n) {
  V_ASSERT(fd == G_efd && n == 8, "the eventfd is drained with 8-byte reads");
  if (G_counter == 0) { G_errno_v = EAGAIN; return -1; }
  *(uint64_t *)buf = G_counter; G_counter = 0; return 8;
}
int epoll_wait(int epfd, struct epoll_event *evs, int maxev, int timeout) {
  V_ASSERT(epfd == G_epfd && maxev >= 1, "epoll_wait on the runtime's epoll instance");
  if (G_counter == 0) return 0;
  evs[0].events = EPOLLIN; evs[0].data.fd = G_efd; return 1;
}

void h_eventfd_notify(void) {
  static struct async_runtime_s rt; static io_event_t out[8];
  rt.epoll_fd = G_epfd; rt.event_fd = G_efd;
  V_DECL(uint32_t, k1); V_DECL(uint32_t, d1); V_DECL(uint32_t, k2); V_DECL(uint32_t, d2);
  V_DECL(int, nposts); V_DECL(int, wake_first);
  V_ASSUME(nposts >= 0 && nposts <= 2 && k1 != 0 && k2 != 0);
  if (wake_first) V_ASSERT(async_runtime_wakeup(&rt) == 0, "wake-up accepted");
  if (nposts >= 1) V_ASSERT(async_runtime_post_completion(&rt, k1, d1) == 0, "first completion accepted");
  if (nposts >= 2) V_ASSERT(async_runtime_post_completion(&rt, k2, d2) == 0, "second completion accepted");
  struct timeval tv = {0, 0};
  V_DECL(int, maxev); V_ASSUME(maxev == 1 || maxev == 8);     /* a caller with room for a single event must get the rest from its next wait */
  int n = async_runtime_wait(&rt, out, maxev, &tv);
  V_ASSERT(n >= 0 && n <= maxev, "wait never reports more events than the caller has room for");
  if (n < 8 && maxev == 1) { int n2 = async_runtime_wait(&rt, out + n, 8 - n, &tv); V_ASSERT(n2 >= 0, "second wait succeeds"); n += n2; }
  /* delivered completions = events with a non-zero key */
  int delivered = 0, seen1 = 0, seen2 = 0;
  for (int i = 0; i < n && i < 8; i++) if (out[i].completion_key != 0) {
    delivered++;
    if (out[i].completion_key == k1 && out[i].bytes_transferred == d1 && !seen1) seen1 = 1;
    else if (nposts >= 2 && out[i].completion_key == k2 && out[i].bytes_transferred == d2 && !seen2) seen2 = 1;
  }
  V_ASSERT(!G_locked, "wait returns with the lock released");
  V_ASSERT(delivered == nposts, "every posted completion is delivered exactly once (none lost, none merged, none invented)");
  V_ASSERT(nposts < 1 || seen1, "the first completion arrives with the key and data it was posted with");
  V_ASSERT(nposts < 2 || seen2, "the second completion arrives with the key and data it was posted with");
  V_COVER(nposts == 2 && n == 2);
  V_COVER(nposts == 1 && !wake_first && n == 1); V_COVER(nposts == 0 && wake_first);
}
