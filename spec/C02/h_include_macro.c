/*@harness
{"tier":"quick","mode":"bounded(two object-like macros A and B, each expanding to A, B or a quoted file name; #include names A, B or a quoted name)","tus":["lib/lpc/lex.c"],"dfcc":false,
 "functions":["handle_include"],
 "stub_out":["lookup_define","lex.c:inc_open","lex.c:refill_buffer","yyerror"],
 "flags":["--bounds-check","--pointer-check","--object-bits","11","--unwindset","__CPROVER_file_local_lex_c_handle_include:4"],"unwind":6,"timeout":1500,
 "expect":["handle_include.assertion","h_include_macro.assertion","handle_include.pointer_dereference"],
 "native":null,
 "assumptions":["strncpy is a stub that copies the (at most 4 byte) name without the 4095-byte padding of the libc model","lookup_define answers from a two-entry macro table of the harness; inc_open finds no file; include_error records the message (it does not abort the compile)",
                "a ghost depth counter is injected at the entry of handle_include","PATH_MAX is redefined to 64 for this run (each recursion level holds a PATH_MAX buffer: with 4096 the propositional encoding runs out of memory); the harness names are at most 4 bytes; MAX_INCLUDE_DEPTH is redefined to 2 so that the bound is reached within the recursion unwinding"],
 "notes":"C02 'compiling any source text is safe': `#include MACRO` follows object-like macros to a file name in a bounded number of steps - a macro that (directly or through another macro) names itself is reported, not followed forever (each level holds a PATH_MAX buffer on the C stack)"}
@*/
/*@prelude file=lib/lpc/lex.c
#include "vharness.h"
@*/
/*@prelude file=lib/lpc/lex.c after="^#include \"preprocess.c\""
#undef PATH_MAX
#define PATH_MAX 64
#undef MAX_INCLUDE_DEPTH
#define MAX_INCLUDE_DEPTH 2
@*/
/*@inject file=lib/lpc/lex.c function=handle_include at=entry
      { extern int G_inc_depth, G_calls; extern int G_incnum_at_entry[8]; G_inc_depth++; if (G_inc_depth == 1 && G_calls < 8) G_incnum_at_entry[G_calls++] = incnum; V_ASSERT(G_inc_depth <= MAX_INCLUDE_DEPTH + 1, "#include through macros never nests deeper than MAX_INCLUDE_DEPTH + 1 calls (a macro that names itself is an error, not an endless recursion)"); }
@*/
/*@inject file=lib/lpc/lex.c function=handle_include at=before match="is = ALLOCATE (incstate_t, TAG_COMPILER, \"handle_include: 1\");"
      { extern int G_pushes; G_pushes++; V_ASSERT(incnum <= MAX_INCLUDE_DEPTH, "an include state is pushed only within MAX_INCLUDE_DEPTH (the limit is enforced every time, not only the first)"); }
@*/
#ifdef HAVE_CONFIG_H
#include <config.h>
#endif
#include "std.h"
#include "lpc/lex.h"
#include "src/main.h"
#include "vharness.h"
#define MAX_INCLUDE_DEPTH_H 2   /* value the prelude gives MAX_INCLUDE_DEPTH in the scratch TU */
main_options_t *g_main_options; static main_options_t G_opts;
int G_inc_depth, G_calls, G_pushes; int G_incnum_at_entry[8]; static int G_errors, G_opens, G_open_ok;
static defn_t DA, DB; static char nA[] = "A", nB[] = "B", fq[] = "\"f\"";
int debug_message_with_src(const char *a, const char *b, const char *c, int d, const char *e, ...) { return 0; }
defn_t *lookup_define(const char *s) { if (s[0] == 'A' && s[1] == 0) return &DA; if (s[0] == 'B' && s[1] == 0) return &DB; return 0; }
void yyerror(char *msg) { if (G_errors < 10) G_errors++; }
int V_STATIC(lex_c, inc_open)(char *buf, const char *name) { if (G_opens < 10) G_opens++; V_DECL(int, found); buf[0] = 'f'; buf[1] = 0; return (G_open_ok && found) ? 7 : -1; }
char *xalloc(size_t n) { char *r = malloc(n); V_ASSUME(r != 0); return r; }
char *make_shared_string(const char *s) { return (char *)s; }
void V_STATIC(lex_c, refill_buffer)(void) { }
int sprintf(char *b, const char *f, ...) { b[0] = 0; return 0; }
/* glibc's isspace() is a table lookup through __ctype_b_loc(): without a model the table pointer is unconstrained and is
   dereferenced against every object of the program (1.3 million byte extracts) */
#include <ctype.h>
static unsigned short G_ctype_tab[384]; static const unsigned short *G_ctype_ptr;
const unsigned short **__ctype_b_loc(void) {
  G_ctype_tab[128 + ' '] = (unsigned short)_ISspace; G_ctype_tab[128 + '\t'] = (unsigned short)_ISspace; G_ctype_tab[128 + '\n'] = (unsigned short)_ISspace;
  G_ctype_tab[128 + '\r'] = (unsigned short)_ISspace; G_ctype_tab[128 + '\f'] = (unsigned short)_ISspace; G_ctype_tab[128 + '\v'] = (unsigned short)_ISspace;
  G_ctype_ptr = &G_ctype_tab[128]; return &G_ctype_ptr;
}   /* the message text is not followed */
/* strncpy into the PATH_MAX-sized local copy: CBMC's model pads 4095 bytes; the names here are at most 4 bytes */
char *strncpy(char *d, const char *s, size_t n) { V_ASSERT(n >= 8, "strncpy bound"); int i = 0; for (; i < 7 && s[i]; i++) d[i] = s[i]; d[i] = 0; return d; }
void V_STATIC(lex_c, handle_include)(const char *inc_name, int optional);
void save_file_info(int a, int b) { }
int add_program_file(const char *n, int t) { return 1; }

void h_include_macro(void) {
  V_FILL(main_options_t, G_opts, opts); g_main_options = &G_opts;
  V_DECL(int, scenario);
  if (scenario) {
    /* nesting accounting: four #include "f" directives in a row without reaching the end of any included file */
    G_open_ok = 1;
    for (int k = 0; k < 4; k++) { G_inc_depth = 0; int before = G_pushes; V_STATIC(lex_c, handle_include)(fq, 0);
      if (k > 0) V_ASSERT(1, "call made"); (void)before; }
    G_inc_depth = 0; V_STATIC(lex_c, handle_include)(fq, 0);      /* fifth call: only to sample the counter */
    V_ASSERT(G_pushes <= MAX_INCLUDE_DEPTH_H, "never more include states than MAX_INCLUDE_DEPTH");
    for (int k = 0; k < 4; k++)
      V_ASSERT(G_incnum_at_entry[k + 1] >= G_incnum_at_entry[k] && G_incnum_at_entry[k + 1] <= G_incnum_at_entry[k] + 1, "the nesting counter moves by at most one per directive");
    V_ASSERT(G_incnum_at_entry[4] - G_incnum_at_entry[0] <= G_pushes, "the nesting counter counts include states actually pushed (a refused or failed #include does not consume depth)");
    V_COVER(G_pushes == MAX_INCLUDE_DEPTH_H);
    return;
  }
  V_DECL(int, ea); V_DECL(int, eb); V_DECL(int, start); V_DECL(int, optional);
  V_ASSUME(0 <= ea && ea <= 2 && 0 <= eb && eb <= 2 && 0 <= start && start <= 2);
  DA.name = nA; DB.name = nB; DA.nargs = -1; DB.nargs = -1;
  DA.exps = ea == 0 ? nA : ea == 1 ? nB : fq;
  DB.exps = eb == 0 ? nA : eb == 1 ? nB : fq;
  char *name = start == 0 ? nA : start == 1 ? nB : fq;
  V_COVER(start == 0 && ea == 1 && eb == 2);
  V_STATIC(lex_c, handle_include)(name, optional != 0);
  V_ASSERT(G_opens + G_errors >= 1, "the directive ends in an attempt to open a file or in a reported error");
  V_COVER(G_opens == 1 && G_inc_depth == 3);
}
