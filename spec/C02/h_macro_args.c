/*@harness
{"tier":"quick","mode":"bounded(a one-parameter macro called with up to 6 comma-separated arguments of one character; NARGS scaled down to 3 by prelude)","tus":["lib/lpc/lex.c"],"include_tu":true,"dfcc":false,
 "functions":["expand_define"],
 "stub_out":["refill_buffer","add_input","skip_comment","skip_line"],
 "flags":["--bounds-check","--pointer-check","--object-bits","11"],"unwind":16,"timeout":900,
 "expect":["expand_define.array_bounds","h_macro_args.assertion"],
 "native":null,
 "assumptions":["NARGS (25) is redefined to 3 for this run so that the argument limit is reached with a short call, DEFMAX (10000, size of the two local expansion buffers) to 64 to keep the run small; the macro is entered with the real add_define, the call text is read by the real cmygetc from a harness buffer",
                "refill_buffer / add_input / skip_comment / skip_line are inert stubs (the call text has no comments and fits the buffer); whashstr puts every name in bucket 0"],
 "notes":"C02 memory safety of a macro call: the local argument pointer array args[NARGS] is never indexed past its end, however many arguments the call has; too many arguments are an error"}
@*/
/*@prelude file=lib/lpc/lex.c after="^#include \"preprocess.c\""
#undef NARGS
#define NARGS 3
#undef DEFMAX
#define DEFMAX 64
@*/
#ifndef V_NATIVE
#include "lex.c"
#endif
#include "vharness.h"
#include "src/main.h"
main_options_t *g_main_options; static main_options_t G_opts;
static int G_errors, G_inputs;
int debug_message_with_src(const char *a, const char *b, const char *c, int d, const char *e, ...) { return 0; }
void yyerror(char *s) { if (G_errors < 20) G_errors++; }
void yywarn(char *s) { }
int whashstr(const char *s, int n) { return 0; }
char *xalloc(size_t n) { char *r = malloc(n); V_ASSUME(r != 0); return r; }
static void refill_buffer(void) { }
static void add_input(const char *p) { if (G_inputs < 10) G_inputs++; }
static void skip_comment(void) { }
static void skip_line(void) { }
/* glibc ctype table model (see DESIGN 8.2: without it every isalnum()/isspace() dereferences an unconstrained pointer) */
#define V_AL ((unsigned short)(_ISalpha | _ISalnum))
static unsigned short G_ctype_tab[384] = { [128 + '0' ... 128 + '9'] = (unsigned short)(_ISdigit | _ISalnum), [128 + 'a' ... 128 + 'z'] = V_AL, [128 + 'A' ... 128 + 'Z'] = V_AL,
                                           [128 + ' '] = (unsigned short)_ISspace, [128 + '\t'] = (unsigned short)_ISspace, [128 + '\n'] = (unsigned short)_ISspace };
static const unsigned short *G_ctype_ptr = &G_ctype_tab[128];
const unsigned short **__ctype_b_loc(void) { return &G_ctype_ptr; }

void h_macro_args(void) {
  static char text[20];
  V_FILL(main_options_t, G_opts, opts); g_main_options = &G_opts;
  V_DECL(int, nargs); V_ASSUME(1 <= nargs && nargs <= 6);
  /* "(1,1,...,1)" with nargs arguments, then a newline and the end-of-input mark */
  int k = 0; text[k++] = '(';
  for (int i = 0; i < 6; i++) if (i < nargs) { text[k++] = '1'; text[k++] = (i + 1 < nargs) ? ',' : ')'; }
  text[k++] = ';'; text[k++] = '\n'; text[k++] = LEX_EOF; text[k] = 0;
  add_define("F", 1, " a ");
  yytext[0] = 'F'; yytext[1] = 0; outptr = text; last_nl = text + k - 2; nexpands = 0; lex_fatal = 0;
  V_COVER(nargs == 4);
  int r = expand_define();
  V_ASSERT(nargs == 1 ? (r != 0 && G_inputs == 1) : (r == 0 && (G_errors > 0 || lex_fatal > 0)), "a call with the declared number of arguments expands; any other number is reported as an error");
  V_COVER(nargs == 1);
}
