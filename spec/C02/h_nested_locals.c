/*@harness
{"tier":"quick","mode":"bounded(max locals per function fixed to 3 (symbolic realloc sizes exhaust memory), nesting of function literals <= 2; numbers of locals at every level symbolic)","tus":["lib/lpc/compiler.c"],"dfcc":false,
 "functions":["init_locals","reallocate_locals","add_local_name","clean_up_locals"],
 "stub_out":["deactivate_current_locals","push_function_context","yyerror"],
 "flags":["--bounds-check","--pointer-check","--no-malloc-may-fail"],"unwind":12,"timeout":900,
 "expect":["add_local_name.pointer_dereference","h_nested_locals.assertion"],
 "native":{},
 "assumptions":["the entry action of the function-literal grammar rule (lib/lpc/grammar.y, L_BASIC_TYPE alternative) is REPLAYED by the harness as the same 6 statements: it is generated bison code, not a C function that can be put under contract - this part is a model and is therefore reported as bounded/other",
                "find_or_add_ident returns a fresh identifier record; realloc/calloc do not fail"],
 "notes":"the three per-compile local-variable tables must have room for max_locals more entries behind the cursors after reallocate_locals(); every write of add_local_name must stay inside the allocation"}
@*/
#ifdef HAVE_CONFIG_H
#include <config.h>
#endif
#include "std.h"
#include "lpc/types.h"
#include "lpc/program.h"
#include "lpc/compiler.h"
#include "src/main.h"
#include "vharness.h"
main_options_t *g_main_options; static main_options_t G_opts;
extern size_t num_local_variables_allowed, locals_size, type_of_locals_size;
extern lpc_type_t *type_of_locals, *type_of_locals_ptr; extern ident_hash_elem_t **locals, **locals_ptr; extern char *runtime_locals, *runtime_locals_ptr;
extern int current_number_of_locals, max_num_locals;
void V_STATIC(compiler_c, init_locals)(void); void reallocate_locals(void); int add_local_name(char *str, int type);
static int G_yyerrors;
void yyerror(char *s) { if (G_yyerrors < 10) G_yyerrors++; }
static ident_hash_elem_t *G_rec[10]; static int G_nrec;   /* every identifier record handed out in this compile */
ident_hash_elem_t *find_or_add_ident(char *name, int flags) { ident_hash_elem_t *e = malloc(sizeof(*e)); V_ASSUME(e != 0); e->dn.local_num = -1; e->sem_value = 0; if (G_nrec < 10) G_rec[G_nrec++] = e; return e; }
void V_STATIC(compiler_c, clean_up_locals)(void);
/* the identifier table (3 pointers) gets a block CBMC can type: pointers stored in an untyped byte block are lost by its value sets */
char *xalloc(size_t n) { char *r = n == sizeof(ident_hash_elem_t *[3]) ? (char *)malloc(sizeof(ident_hash_elem_t *[3])) : malloc(n); V_ASSUME(r != 0); return r; }
void deactivate_current_locals(void) { }
void push_function_context(void) { }
int debug_message_with_src(const char *a, const char *b, const char *c, int d, const char *e, ...) { return 0; }

static void enter_function_literal(void) {     /* replay of the grammar action (see assumptions) */
  /* grammar.y: if (type_of_locals_ptr + max_num_locals + num_local_variables_allowed >= &type_of_locals[type_of_locals_size]);
     same comparison on offsets (the pointer form computes an address beyond the allocation) */
  if ((size_t)(type_of_locals_ptr - type_of_locals) + (size_t)max_num_locals + num_local_variables_allowed >= type_of_locals_size)
    reallocate_locals();
  deactivate_current_locals();
  locals_ptr += current_number_of_locals;
  type_of_locals_ptr += max_num_locals;
  runtime_locals_ptr += current_number_of_locals;
  max_num_locals = current_number_of_locals = 0;
  push_function_context();
}
static char G_name[] = "x";
static void declare(int k) { for (int i = 0; i < 4; i++) if (i < k) add_local_name(G_name, 1); }

void h_nested_locals(void) {
  V_FILL(main_options_t, G_opts, opts); g_main_options = &G_opts;
  V_DECL(int, allowed); V_DECL(int, k0); V_DECL(int, k1); V_DECL(int, k2); V_DECL(int, depth);
  V_ASSUME(allowed == 3 && 0 <= k0 && k0 <= allowed && 0 <= k1 && k1 <= allowed && 0 <= k2 && k2 <= allowed && 0 <= depth && depth <= 2);
  num_local_variables_allowed = 3;   /* concrete: a block of symbolic size loses the pointers stored in it (CBMC value sets) */
  V_STATIC(compiler_c, init_locals)();
  declare(k0);                                   /* locals of the enclosing function */
  if (depth >= 1) { enter_function_literal(); declare(k1); }
  if (depth >= 2) { enter_function_literal(); declare(k2); }
  /* capacity contract of reallocate_locals, stated over the table sizes the code itself maintains */
  V_ASSERT((size_t)(type_of_locals_ptr - type_of_locals) + (size_t)max_num_locals <= type_of_locals_size, "the type table has room for every local declared so far");
  V_ASSERT(G_yyerrors == 0, "declaring at most max_locals locals per function never reports 'Too many local variables'");
  V_COVER(depth == 2 && k0 == 3 && k1 == 3 && k2 == 3); V_COVER(depth == 1 && k0 == 1);
  /* the compile is abandoned here (syntax error, EOF inside a body): clean_parser() / epilog() call clean_up_locals().
     C02 'leaves the compiler reusable': no identifier stays bound as a local, the cursors are back at the start */
  /* (only for the un-nested case: after realloc() CBMC's value sets lose the identifier pointers copied by its realloc model
     - `locals[2]` resolves to an invalid object although the native run is clean - so the nested case cannot be decided here) */
  if (depth != 0) return;
  V_STATIC(compiler_c, clean_up_locals)();
  for (int i = 0; i < 10; i++) if (i < G_nrec)
    V_ASSERT(G_rec[i]->dn.local_num == -1 && G_rec[i]->sem_value == 0, "after clean_up_locals no identifier of the abandoned compile is still bound as a local (local_num -1, semantic value released)");
  V_ASSERT(locals_ptr == locals && type_of_locals_ptr == type_of_locals && runtime_locals_ptr == runtime_locals && current_number_of_locals == 0 && max_num_locals == 0, "the local tables are rewound for the next compile");
  V_COVER(G_nrec == 3);
}
