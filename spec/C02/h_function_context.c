/*@harness
{"tier":"quick","mode":"width","tus":["lib/lpc/lex.c"],"dfcc":false,
 "functions":["push_function_context","pop_function_context"],
 "stub_out":["lex.c:lexerror","yyerror"],
 "flags":["--bounds-check","--pointer-check","--object-bits","11"],"unwind":14,"timeout":900,
 "expect":["h_function_context.assertion","push_function_context.pointer_dereference"],
 "native":null,
 "assumptions":["lexerror (the lexer's fatal error: yylex returns end of input from then on) and yyerror (an ordinary compile error: parsing goes on) are recording stubs; new_node_no_line hands out a fresh node",
                "the grammar pops one context for every function literal it closes (lib/lpc/grammar.y, two places)"],
 "notes":"C02: a function literal nested deeper than the context stack is refused with a FATAL lexer error - an ordinary error would let the parser go on and pop contexts that were never pushed (current_function_context then runs off the stack and is dereferenced as NULL); accepted pushes and pops balance"}
@*/
#ifdef HAVE_CONFIG_H
#include <config.h>
#endif
#include "std.h"
#include "lpc/lex.h"
#include "lpc/compiler.h"
#include "src/main.h"
#include "vharness.h"
main_options_t *g_main_options; static main_options_t G_opts;
static int G_fatal, G_plain; static parse_node_t G_nodes[14]; static int G_nn;
int debug_message_with_src(const char *a, const char *b, const char *c, int d, const char *e, ...) { return 0; }
void V_STATIC(lex_c, lexerror)(char *s) { if (G_fatal < 20) G_fatal++; }
void yyerror(char *s) { if (G_plain < 20) G_plain++; }
parse_node_t *new_node_no_line(void) { parse_node_t *n = &G_nodes[G_nn < 13 ? G_nn : 13]; if (G_nn < 13) G_nn++; return n; }
void push_function_context(void); void pop_function_context(void);
extern function_context_t *current_function_context;

void h_function_context(void) {
  V_FILL(main_options_t, G_opts, opts); g_main_options = &G_opts;
  V_DECL(int, depth); V_ASSUME(0 <= depth && depth <= 12);
  int accepted = 0, refused = 0;
  for (int k = 0; k < 12; k++) if (k < depth) {
    function_context_t *before = current_function_context;
    push_function_context();
    if (current_function_context == before) refused++; else { accepted++; V_ASSERT(current_function_context->parent == before, "a pushed context remembers the enclosing one"); }
  }
  V_ASSERT(refused == 0 || G_fatal > 0, "a function literal nested beyond the context stack is a fatal lexer error (parsing must not go on to the pops of contexts that were never pushed)");
  V_COVER(refused > 0);
  for (int k = 0; k < 12; k++) if (k < accepted) pop_function_context();
  V_ASSERT(current_function_context == 0, "as many pops as accepted pushes lead back to 'no function literal open'");
  V_COVER(accepted == 5 && refused == 0);
}
