/*@harness
{"tier":"quick","mode":"unbounded","tus":["src/comm.c"],"stub_out":["add_message","add_vmessage","flush_message"],"enforce":"comm.c:first_cmd_in_buf",
 "flags":["--bounds-check","--pointer-check"],"timeout":900,
 "expect":["first_cmd_in_buf.postcondition","first_cmd_in_buf.loop_invariant_step","first_cmd_in_buf.pointer_dereference"],
 "native":{}}
@*/
/*@prelude file=src/comm.c after="^#include \"lpc/include/origin.h\""
#include "c13_ghost.h"
@*/
/*@loop file=src/comm.c function=first_cmd_in_buf match="while ((p < (ip->text + ip->text_end)) && !*p)"
__CPROVER_assigns(p)
__CPROVER_loop_invariant(__CPROVER_same_object(p, ip) && ip->text_start <= C13_TOFF(p) && C13_TOFF(p) <= ip->text_end)
__CPROVER_loop_invariant(G_has ==> C13_TOFF(p) <= G_a)
__CPROVER_decreases(ip->text_end - C13_TOFF(p))
@*/
/*@loop file=src/comm.c function=first_cmd_in_buf match="while ((p < (ip->text + ip->text_end)) && *p)"
__CPROVER_assigns(p)
__CPROVER_loop_invariant(__CPROVER_same_object(p, ip) && ip->text_start <= C13_TOFF(p) && C13_TOFF(p) <= ip->text_end)
__CPROVER_loop_invariant((G_has && !(ip->iflags & SINGLE_CHAR)) ==> C13_TOFF(p) <= G_z)
__CPROVER_decreases(ip->text_end - C13_TOFF(p))
@*/
/*@loop file=src/comm.c function=first_cmd_in_buf match="while (p < (ip->text + ip->text_end))"
__CPROVER_assigns(p, q, __CPROVER_object_upto(ip->text, C13_MAX_TEXT))
__CPROVER_loop_invariant(__CPROVER_same_object(p, ip) && __CPROVER_same_object(q, ip))
__CPROVER_loop_invariant(ip->text_start <= C13_TOFF(p) && C13_TOFF(p) <= ip->text_end && C13_TOFF(q) == C13_TOFF(p) - ip->text_start)
__CPROVER_loop_invariant(ip->text[ip->text_start] != 0 || C13_TOFF(p) > ip->text_start)
__CPROVER_loop_invariant(C13_TOFF(q) > 0 ==> ip->text[0] != 0)
__CPROVER_decreases(ip->text_end - C13_TOFF(p))
@*/
#include "c13_env.h"
#include "c13_text.h"

void h_first_cmd_in_buf(void) {
  V_NEW(interactive_t, ip);
  V_DECL(long, a); V_DECL(long, z); V_DECL(int, has);
  G_a = a; G_z = z; G_has = has;
#ifdef V_NATIVE
  V_ASSUME(C13_TXT(ip));
#endif
  char *r = V_STATIC(comm_c, first_cmd_in_buf)(ip);
  V_POST(C13_TXT(ip), "text cursors well formed");
  V_POST(r == 0 || r == ip->text + ip->text_start, "answer is the buffer start");
}
