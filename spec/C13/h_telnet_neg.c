/*@harness
{"tier":"quick","mode":"unbounded","tus":["src/comm.c"],"stub_out":["add_message","add_vmessage","flush_message"],"functions":["telnet_neg"],
 "flags":["--bounds-check","--pointer-check"],"timeout":600,
 "expect":["telnet_neg.loop_invariant_step","telnet_neg.pointer_dereference","telnet_neg.assigns","h_telnet_neg.assertion"],
 "native":{},
 "notes":"light enforcement: requires assumed / ensures asserted by the harness via the contract's own macros; loop closed by the injected loop contract (assigns + invariant + decreases checked by dfcc)"}
@*/
/*@prelude file=src/comm.c after="^#include \"lpc/include/origin.h\""
#include "c13_ghost.h"
@*/
/*@loop file=src/comm.c function=telnet_neg match="while (1)"
__CPROVER_assigns(ch, from, to, G_w, __CPROVER_object_whole(first))
__CPROVER_loop_invariant(__CPROVER_same_object(from, __CPROVER_loop_entry(from)) && (long)__CPROVER_POINTER_OFFSET(from) <= G_z)
// output cursor never before the start of the output and never ahead of the input cursor: the edited text is no longer than the input
__CPROVER_loop_invariant(__CPROVER_same_object(to, first) && (long)__CPROVER_POINTER_OFFSET(to) <= (long)__CPROVER_POINTER_OFFSET(from))
__CPROVER_decreases(G_z + 1 - (long)__CPROVER_POINTER_OFFSET(from))
@*/
/*@inject file=src/comm.c function=telnet_neg at=wrap match="return;"
G_w = to - first;
@*/
#include "c13_env.h"
#include "c13_text.h"

void h_telnet_neg(void) {
  V_DECL(long, z);
  V_ASSUME(0 <= z && z < C13_MAX_TEXT);
  G_z = z; G_w = -1;
  char *from = malloc(z + 1), *to = malloc(z + 1);
  V_ASSUME(from && to);
#ifdef V_NATIVE
  for (long k = 0; k < z; k++) from[k] = (char)v_next("from_byte");
  from[z] = 0;
#endif
  V_ASSUME(TN_PRE(to, from));
  V_STATIC(comm_c, telnet_neg)(to, from);
  V_ASSERT(TN_POST(to), "telnet_neg: edited command is NUL-terminated inside the output and no longer than the input");
  V_COVER(G_w == 1); V_COVER(G_w == G_z + 1 && G_z > 3);
}
