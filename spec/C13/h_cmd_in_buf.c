/*@harness
{"tier":"quick","mode":"unbounded","tus":["src/comm.c"],"stub_out":["add_message","add_vmessage","flush_message"],"enforce":"comm.c:cmd_in_buf",
 "flags":["--bounds-check","--pointer-check"],"timeout":600,
 "expect":["cmd_in_buf.postcondition","cmd_in_buf.loop_invariant_step","cmd_in_buf.pointer_dereference"],
 "native":{}}
@*/
/*@prelude file=src/comm.c after="^#include \"lpc/include/origin.h\""
#include "c13_ghost.h"
@*/
/*@loop file=src/comm.c function=cmd_in_buf match="while ((p < (ip->text + ip->text_end)) && !*p)"
__CPROVER_assigns(p)
__CPROVER_loop_invariant(__CPROVER_same_object(p, ip) && ip->text_start <= C13_TOFF(p) && C13_TOFF(p) <= ip->text_end)
__CPROVER_loop_invariant(G_has ==> C13_TOFF(p) <= G_a)
__CPROVER_decreases(ip->text_end - C13_TOFF(p))
@*/
/*@loop file=src/comm.c function=cmd_in_buf match="while ((p < (ip->text + ip->text_end)) && *p)"
__CPROVER_assigns(p)
__CPROVER_loop_invariant(__CPROVER_same_object(p, ip) && ip->text_start <= C13_TOFF(p) && C13_TOFF(p) <= ip->text_end)
__CPROVER_loop_invariant((G_has && !(ip->iflags & SINGLE_CHAR)) ==> C13_TOFF(p) <= G_z)
__CPROVER_decreases(ip->text_end - C13_TOFF(p))
@*/
/*@inject file=src/comm.c function=cmd_in_buf at=wrap match="return 1;" nth=1
G_w = p - ip->text;
@*/
/*@inject file=src/comm.c function=cmd_in_buf at=wrap match="return 1;" nth=2
G_w = p - ip->text;
@*/
#include "c13_env.h"
#include "c13_text.h"

void h_cmd_in_buf(void) {
  V_NEW(interactive_t, ip);
  V_DECL(long, a); V_DECL(long, z); V_DECL(int, has);
  G_a = a; G_z = z; G_has = has; G_w = -1;
#ifdef V_NATIVE
  V_ASSUME(C13_TXT(ip));
#endif
  int r = V_STATIC(comm_c, cmd_in_buf)(ip);
  V_POST(r == 0 || r == 1, "boolean");
  V_COVER(r == 1 && G_has); V_COVER(r == 1 && !G_has && !(ip->iflags & SINGLE_CHAR)); V_COVER(r == 0); V_COVER(r == 1 && (ip->iflags & SINGLE_CHAR));
  (void)r;
}
