/* ghost state and predicates of C13 (input framing); #included into the scratch copy of src/comm.c */
#ifndef C13_GHOST_H
#define C13_GHOST_H
#define C13_SB_SIZE 100      /* == SB_SIZE, static-asserted in the harnesses */
#define C13_MAX_TEXT 2048    /* == MAX_TEXT */
#define C13_TS_DATA 0
#define C13_TS_MASK 0x000f
#define C13_TS_CR 0x0010
/* telnet state word well formed: a known state; CR_SEEN only together with TS_DATA */
#define C13_STATE_OK(st) ((((st) & C13_TS_MASK) <= 7) && (((st) & ~(C13_TS_MASK | C13_TS_CR)) == 0) && \
                          ((((st) & C13_TS_CR) == 0) || (((st) & C13_TS_MASK) == C13_TS_DATA)))
#define C13_CR(st) (((st) & C13_TS_CR) ? 1 : 0)
#define C13_SB_OK(ip) (0 <= (ip)->sb_pos && (ip)->sb_pos < C13_SB_SIZE)
/* text buffer cursors */
#define C13_TXT(ip) (0 <= (ip)->text_start && (ip)->text_start <= (ip)->text_end && (ip)->text_end < C13_MAX_TEXT)
/* offset of a pointer into ip->text, as an index of text[] */
#define C13_TOFF(p) ((long)__CPROVER_POINTER_OFFSET(p) - (long)__builtin_offsetof(interactive_t, text))
/* ghost witnesses for "a complete command is waiting": text[G_a] != 0 (first byte of a command at or after
   text_start) and text[G_z] == 0 with G_a < G_z < text_end */
extern long G_a, G_z;
extern int G_has;       /* the witnesses are valid */
extern long G_w;        /* witness exported by cmd_in_buf when it answers 1: index of the terminating NUL (or of the byte, single-char mode) */
#define C13_WITNESS(ip) ((ip)->text_start <= G_a && G_a < G_z && G_z < (ip)->text_end && (ip)->text[G_a] != 0 && (ip)->text[G_z] == 0)
#define C13_WITNESS1(ip) ((ip)->text_start <= G_a && G_a < (ip)->text_end && (ip)->text[G_a] != 0)
extern long G_cap;   /* writable bytes behind `to` */
extern int G_cr0;    /* CR_SEEN on entry */
extern int G_applies, G_pushed;
extern int G_out_calls;
extern int G_mc_hits, G_mc_calls; /* memchr stub: calls and non-NULL answers */ /* saturating counters of LPC call-backs / pushed arguments */
#endif
