/*@harness
{"tier":"quick","mode":"bounded(at most 3 complete lines per read)","tus":["src/comm.c"],"functions":["get_user_data"],
 "dfcc":false,"stub_out":["add_message","add_vmessage","flush_message","comm.c:receive_snoop","remove_interactive","comm.c:copy_chars","comm.c:cmd_in_buf"],
 "flags":["--bounds-check","--pointer-check"],"timeout":1500,
 "expect":["memcpy.assertion","get_user_data.array_bounds","get_user_data.pointer_dereference","h_get_user_data_ascii.assertion","recv.assertion"],
 "native":{"rename":["recv","memchr","memcpy","memmove"]},"unwind":4,
 "assumptions":["recv() stub: returns -1 (any errno), 0, or 1..len and fills the buffer arbitrarily",
                "memcpy/memmove stubs: ranges asserted valid, content havocked","memchr() stub: returns NULL or any position in range holding the byte (over-approximates first-match)",
                "apply()/remove_interactive(): LPC call-backs do not free the connection while get_user_data still uses it (C09 territory)",
                "copy_chars and cmd_in_buf replaced by their contracts (enforced by their own harnesses)"],
 "notes":"bounded stand-in: goto-instrument 6.11 crashes (goto_inline parameter_assignments) when a loop contract is applied to the PORT_ASCII loop, so that loop is unwound 4 times and the memchr stub answers non-NULL at most 3 times"}
@*/
/*@prelude file=src/comm.c after="^#include \"lpc/include/origin.h\""
#include "c13_ghost.h"
@*/
/*@inject file=src/comm.c function=get_user_data at=before match="ip->text_end += copy_chars ((UCHAR *) buf, (UCHAR *) ip->text + ip->text_end, num_bytes, ip);"
G_cap = 2 * (long)num_bytes + 1; G_cr0 = C13_CR(ip->state);
@*/
#include "c13_env.h"
#include "c13_text.h"
#include <errno.h>

int G_mc_hits, G_mc_calls, G_removed, G_recv_len = -1;
static int G_errno_v;
int *__errno_location(void) { return &G_errno_v; }

#define CC_PRE(from, to, count, ip) ((ip) == G_ip && C13_STATE_OK((ip)->state) && C13_SB_OK(ip) && G_cr0 == C13_CR((ip)->state) && \
                                     1 <= (count) && (count) <= C13_MAX_TEXT && G_cap == 2 * (long)(count) + 1)
#define CC_POST_BOUND(ret, count, ip) ((ret) + C13_CR((ip)->state) <= 2 * (count) + G_cr0 && (ret) <= 3 * (count))
#define CC_POST_STATE(ip) (C13_STATE_OK((ip)->state) && C13_SB_OK(ip))
#define CC_POST_FLAGS(ip, old_iflags) ((((ip)->iflags ^ (old_iflags)) & ~(SINGLE_CHAR | NOECHO | NOESC | WAS_SINGLE_CHAR | USING_TELNET | USING_LINEMODE | NET_DEAD)) == 0)
/* copy_chars and cmd_in_buf by contract, written out as contract stubs (assert the requires, havoc the frame,
   assume the ensures - the same macros that h_copy_chars*.c / h_cmd_in_buf.c enforce on the real bodies);
   dfcc's --replace-call-with-contract makes this harness exhaust 12 GB */
size_t V_STATIC(comm_c, copy_chars)(unsigned char *from, unsigned char *to, size_t count, interactive_t *ip) {
  V_ASSERT(CC_PRE(from, to, count, ip), "precondition of copy_chars holds at the call site (state, count, capacity 2*count+1)");
  V_ASSERT(__CPROVER_r_ok(from, count) && __CPROVER_w_ok(to, G_cap), "copy_chars call site: source readable, destination has 2*count+1 writable bytes");
  int old_iflags = ip->iflags;
  V_DECL(int, cc_state); V_DECL(int, cc_sb_pos); V_DECL(int, cc_iflags); V_DECL(size_t, cc_ret);
  ip->state = cc_state; ip->sb_pos = cc_sb_pos; ip->iflags = cc_iflags;
  c13_out_effect();
  /* text content not modelled (see memcpy stub) */
  V_ASSUME(CC_POST_BOUND(cc_ret, count, ip) && CC_POST_STATE(ip) && CC_POST_FLAGS(ip, old_iflags));
  return cc_ret;
}
int V_STATIC(comm_c, cmd_in_buf)(interactive_t *ip) {
  V_ASSERT(ip == G_ip && C13_TXT(ip), "precondition of cmd_in_buf holds at the call site (text cursors well formed)");
  V_DECL(int, cib_ret);
  return cib_ret != 0;
}

/* trusted stubs */
ssize_t recv(int fd, void *buf, size_t len, int flags) {
  V_ASSERT(fd == G_ip->fd, "recv reads this connection's socket");
  V_ASSERT(len <= C13_MAX_TEXT - 1 && __CPROVER_w_ok(buf, len + 1), "recv length leaves room for the terminating NUL in the read buffer");
  V_DECL(long, recv_ret);
  V_ASSUME(recv_ret == -1 || (recv_ret >= 0 && (size_t)recv_ret <= len));
  if (recv_ret == -1) { V_DECL(int, recv_errno); G_errno_v = recv_errno; }
  G_recv_len = (int)recv_ret;
#ifdef V_NATIVE_UNUSED
  for (long k = 0; k < recv_ret; k++) ((char *)buf)[k] = (char)v_next("rx_byte");
#endif
  return recv_ret;
}
void *memchr(const void *s, int c, size_t n) {
  V_ASSERT(n <= C13_MAX_TEXT && __CPROVER_r_ok(s, n), "memchr range is readable");
  if (G_mc_calls < 1000) G_mc_calls++;
  V_DECL(long, mc_off);
  if (mc_off < 0 || (size_t)mc_off >= n || G_mc_hits >= 3) return 0;
  V_ASSUME(((const unsigned char *)s)[mc_off] == (unsigned char)c);
  if (G_mc_hits < 1000) G_mc_hits++;
  return (char *)s + mc_off;
}
void V_STATIC(comm_c, receive_snoop)(char *buf, object_t *snooper) { }
void remove_interactive(object_t *ob, int dested) {
  V_ASSERT(ob == G_ip->ob, "only this connection is removed");
  G_removed = 1;
}
int async_runtime_post_read(async_runtime_t *rt, socket_fd_t fd, void *b, size_t n) { V_DECL(int, post_read_ret); return post_read_ret; }
char *int_new_string(size_t n) { char *r = malloc(n + 1); V_ASSUME(r); return r; }
void push_malloced_string(char *s) { if (G_pushed < 1000) G_pushed++; }
buffer_t *allocate_buffer(size_t n) { buffer_t *b = malloc(sizeof(buffer_t) + n); V_ASSUME(b); b->size = (unsigned)n; b->ref = 1; return b; }
void push_refed_buffer(buffer_t *b) { if (G_pushed < 1000) G_pushed++; }
/* memcpy/memmove: the obligation is that source and destination ranges are valid at every call; the copied
   content is abstracted (destination havocked) - CBMC's byte-precise model of a symbolic-length copy into a
   2 KiB buffer exhausts memory */
void *memcpy(void *dst, const void *src, size_t n) {
  V_ASSERT(n <= C13_MAX_TEXT && __CPROVER_w_ok(dst, n) && __CPROVER_r_ok(src, n), "memcpy source and destination ranges are inside their objects");
  /* content not modelled: nothing in the function under contract reads it back (scanners are contract stubs) */
  return dst;
}
void *memmove(void *dst, const void *src, size_t n) {
  V_ASSERT(n <= C13_MAX_TEXT && __CPROVER_w_ok(dst, n) && __CPROVER_r_ok(src, n), "memmove source and destination ranges are inside their objects");
  /* content not modelled: nothing in the function under contract reads it back (scanners are contract stubs) */
  return dst;
}
char *strerror(int e) { static char m[] = "err"; return m; }

static char G_evbuf[C13_MAX_TEXT];

void h_get_user_data_ascii(void) {
  V_NEW(interactive_t, ip);
  V_NEW(object_t, ob);
  V_NEW(interactive_t, snooper);
  V_NEW(io_event_t, evt);
  ip->ob = ob; ob->interactive = ip; snooper->ob = ob;
  V_DECL(int, has_snoop); ip->snoop_by = has_snoop ? snooper : 0;
  V_DECL(int, evt_kind);   /* 0: NULL event, 1: event without buffer (readiness), 2: completion with data */
  evt->buffer = (evt_kind == 2) ? (void *)&G_evbuf[0] : (void *)0;
  G_ip = ip; g_main_options = &G_opts;
  V_FILL(main_options_t, G_opts, opts);
  V_DECL(long, g); G_a = g;               /* ghost index into the pending text */
  V_ASSUME(C13_TXT(ip) && C13_STATE_OK(ip->state) && C13_SB_OK(ip));
  V_ASSUME(ip->connection_type == PORT_ASCII);
  V_ASSUME(ip->text[ip->text_end] == 0);
  long start0 = ip->text_start, end0 = ip->text_end; int ctype = ip->connection_type;
  V_ASSUME(0 <= g && g < C13_MAX_TEXT);
  char old_g = ip->text[g];
  V_STATIC(comm_c, get_user_data)(ip, evt_kind ? evt : 0);
  if (!G_removed) {
    V_ASSERT(C13_TXT(ip), "get_user_data: text cursors stay well formed (0 <= start <= end < MAX_TEXT)");
    V_ASSERT(C13_STATE_OK(ip->state) && C13_SB_OK(ip), "get_user_data: telnet state stays well formed");
    /* framing must not depend on how the stream was cut into reads: a read that brings no newline only APPENDS
       to the pending partial line of a line-mode (ASCII) port */
    if (ctype == PORT_ASCII && G_recv_len > 0 && G_mc_hits == 0 && evt_kind != 2) {
      int full = (end0 == C13_MAX_TEXT - 1);          /* no room left: the pending line is shifted down, or discarded if it fills the buffer */
      V_ASSERT(full || (ip->text_start == start0 && ip->text_end == end0 + G_recv_len), "get_user_data(ASCII): a read without newline appends to the pending partial line");
      V_ASSERT(!full || start0 == 0 || (ip->text_start == 0 && ip->text_end == (end0 - start0) + G_recv_len), "get_user_data(ASCII): a full buffer keeps the pending partial line (shifted to the start) and appends");
      V_ASSERT(!full || start0 != 0 || (ip->text_start == 0 && ip->text_end == G_recv_len), "get_user_data(ASCII): a line that fills the whole buffer is discarded");
      V_ASSERT(full || !(start0 <= g && g < end0) || ip->text[g] == old_g, "get_user_data(ASCII): pending bytes of a partial line are preserved by the next read");
    }
  }
  V_COVER(!G_removed && ctype == PORT_ASCII && G_mc_hits > 0);
  V_COVER(!G_removed && ctype == PORT_ASCII && G_recv_len > 0 && G_mc_hits == 0 && start0 < end0);
  V_COVER(G_removed);
}
