/* C13: common includes, trusted stubs and assumed (frame) contracts of the output side */
#ifndef C13_ENV_H
#define C13_ENV_H
#ifdef HAVE_CONFIG_H
#include <config.h>
#endif
#include "std.h"
#include "lpc/object.h"
#include "lpc/buffer.h"
#include "comm.h"
#include "main.h"
#include "rc.h"
#include "interpret.h"
#include "async/async_runtime.h"
#include "vharness.h"
#include "c13_ghost.h"
_Static_assert(C13_SB_SIZE == SB_SIZE, "ghost constants");
V_NONDET_FN(interactive_t); V_NONDET_FN(object_t);
long G_cap; int G_cr0;
static interactive_t *G_ip;
static main_options_t G_opts;
main_options_t *g_main_options;   /* defined in src/main.c, not part of any C13 harness */

/* Output side: the real add_message / add_vmessage / flush_message bodies are removed from the TU for the
   C13 harnesses (stub_out) and replaced by these trusted stubs.  Their frame (only the message ring, out_of_band
   and the NET_DEAD bit of the connection are written) is what C14 enforces as assigns clauses on the real bodies.
   The ring *contents* are left alone here: no function under a C13 contract reads message_buf. */
int G_out_calls;
static void c13_out_effect(void) {
  V_DECL(int, out_dead); V_DECL(int, out_len); V_DECL(int, out_prod); V_DECL(int, out_cons);
  if (out_dead) G_ip->iflags |= NET_DEAD;
  G_ip->message_length = out_len; G_ip->message_producer = out_prod; G_ip->message_consumer = out_cons;
  G_ip->out_of_band = 0;
  if (G_out_calls < 1000) G_out_calls++;
}
void add_message(object_t *who, char *data) {
  V_ASSERT(who == G_ip->ob && data != 0, "add_message is called for the connection's own object with a string");
  c13_out_effect();
}
void add_vmessage(object_t *who, char *fmt, ...) {
  V_ASSERT(who == G_ip->ob && fmt != 0, "add_vmessage is called for the connection's own object with a format");
  c13_out_effect();
}
int flush_message(interactive_t *ip) {
  V_ASSERT(ip == G_ip, "flush_message is called for this connection");
  c13_out_effect();
  V_DECL(int, flush_ret);
  return flush_ret != 0;
}

/* LPC call-backs: may flip the input-mode flags of the connection (input_to / get_char), nothing else of it.
   That they do not free the connection is an ASSUMPTION here (C09 territory). */
int G_applies;
svalue_t *apply(const char *fun, object_t *ob, int num_arg, int origin) {
  V_ASSERT(ob == G_ip->ob, "call-back goes to the connection's own object");
  V_DECL(int, apply_flip);
  G_ip->iflags ^= (apply_flip & (SINGLE_CHAR | NOECHO | NOESC | WAS_SINGLE_CHAR));
  if (G_applies < 1000) G_applies++;
  return 0;
}
int G_pushed;
void copy_and_push_string(const char *s) {
  V_ASSERT(__CPROVER_r_ok(s, 1), "pushed string is readable");
  if (G_pushed < 1000) G_pushed++;
}
void push_number(int64_t n) { if (G_pushed < 1000) G_pushed++; }
int debug_message_with_src(const char *a, const char *b, const char *c, int d, const char *e, ...) { return 0; }
int debug_message(const char *fmt, ...) { return 0; }
#endif
