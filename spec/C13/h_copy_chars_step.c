/*@harness
{"tier":"quick","mode":"bounded(count=1: inductive step of the copy loop from every state satisfying the loop invariant)","dfcc":false,"unwind":36,"tus":["src/comm.c"],"functions":["copy_chars"],
 "stub_out":["add_message","add_vmessage","flush_message"],
 "flags":["--bounds-check","--pointer-check"],
 "timeout":900,
 "expect":["h_copy_chars_step.assertion","copy_chars.array_bounds","copy_chars.pointer_dereference"],
 "native":{},
 "assumptions":["add_message/add_vmessage/flush_message: real bodies removed, trusted stubs (ring scalars + NET_DEAD only; frame enforced as assigns clauses under C14)",
                "the full loop is the iteration of this step (the body reads only from[i], to, ip): induction over i is a meta-argument, the loop-contract version h_copy_chars (thorough tier) machine-checks it when resources allow","apply(): LPC call-back may flip SINGLE_CHAR/NOECHO/NOESC of the connection but does not free it"]}
@*/
/*@prelude file=src/comm.c after="^#include \"lpc/include/origin.h\""
#include "c13_ghost.h"
@*/
#include "c13_env.h"

#define CC_PRE(from, to, count, ip) ((ip) == G_ip && C13_STATE_OK((ip)->state) && C13_SB_OK(ip) && G_cr0 == C13_CR((ip)->state) && \
                                     1 <= (count) && (count) <= C13_MAX_TEXT && G_cap == 2 * (long)(count) + 1)
/* bounded expansion: never more than 2*count (+1 if a CR was pending), hence <= 3*count */
#define CC_POST_BOUND(ret, count, ip) ((ret) + C13_CR((ip)->state) <= 2 * (count) + G_cr0 && (ret) <= 3 * (count))
/* the telnet machine stays well formed and the sub-negotiation index stays inside its array */
#define CC_POST_STATE(ip) (C13_STATE_OK((ip)->state) && C13_SB_OK(ip))
/* only input-mode / telnet-capability / NET_DEAD bits of iflags can change */
#define CC_POST_FLAGS(ip, old_iflags) ((((ip)->iflags ^ (old_iflags)) & ~(SINGLE_CHAR | NOECHO | NOESC | WAS_SINGLE_CHAR | USING_TELNET | USING_LINEMODE | NET_DEAD)) == 0)

/* declared contract (used when callers are verified against it); enforced below in "light" style:
   requires assumed and ensures asserted by the harness, loops closed by the injected loop contracts */
size_t V_STATIC(comm_c, copy_chars)(unsigned char *from, unsigned char *to, size_t count, interactive_t *ip)
__CPROVER_requires(CC_PRE(from, to, count, ip) && __CPROVER_r_ok(from, count) && __CPROVER_w_ok(to, G_cap))
__CPROVER_assigns(ip->state, ip->sb_pos, ip->iflags, ip->message_consumer, ip->message_length, ip->message_producer, ip->out_of_band, __CPROVER_object_upto(ip->message_buf, MESSAGE_BUF_SIZE), __CPROVER_object_upto(ip->sb_buf, C13_SB_SIZE),
                  __CPROVER_object_upto(to, G_cap), G_applies, G_pushed)
__CPROVER_ensures(CC_POST_BOUND(__CPROVER_return_value, count, ip))
__CPROVER_ensures(CC_POST_STATE(ip))
__CPROVER_ensures(CC_POST_FLAGS(ip, __CPROVER_old(ip->iflags)))
;

void h_copy_chars_step(void) {
  V_NEW(interactive_t, ip);
  V_NEW(object_t, ob);
  ip->ob = ob; ob->interactive = ip;
  G_ip = ip; g_main_options = &G_opts;
  V_FILL(main_options_t, G_opts, opts);
  V_DECL(size_t, count);
  V_ASSUME(count == 1);
  G_cr0 = C13_CR(ip->state);
  G_cap = 2 * (long)count + 1;   /* 3 bytes: the most one input byte can produce */
  unsigned char *from = malloc(count), *to = malloc(G_cap);
  V_ASSUME(from && to);
  V_DECL(v_uchar, from0); from[0] = from0;
  V_ASSUME(CC_PRE(from, to, count, ip));
  int old_iflags = ip->iflags;
  size_t ret = V_STATIC(comm_c, copy_chars)(from, to, count, ip);
  V_ASSERT(CC_POST_BOUND(ret, count, ip), "copy_chars: bounded expansion (<= 2*count + pending CR, <= 3*count)");
  V_ASSERT(CC_POST_STATE(ip), "copy_chars: telnet state word and sub-negotiation index well formed");
  V_ASSERT(CC_POST_FLAGS(ip, old_iflags), "copy_chars: only input-mode / telnet / NET_DEAD flags change");
  V_COVER(ret == 3); V_COVER(ip->sb_pos == C13_SB_SIZE - 1); V_COVER(ret == 0); V_COVER(G_applies > 0);
}
