/* contracts of the command-buffer scanners of src/comm.c (used by C13 and, as callee contracts, by C12) */
#ifndef C13_TEXT_H
#define C13_TEXT_H
long G_a, G_z, G_w = -1; int G_has;

/* cmd_in_buf: pure; answers 1 iff a complete non-empty command (any byte, in single-char mode) waits */
int V_STATIC(comm_c, cmd_in_buf)(interactive_t *ip)
__CPROVER_requires(__CPROVER_is_fresh(ip, sizeof(*ip)) && C13_TXT(ip) && G_w == -1)
__CPROVER_requires(G_has ==> ((ip->iflags & SINGLE_CHAR) ? C13_WITNESS1(ip) : C13_WITNESS(ip)))
__CPROVER_assigns(G_w)
__CPROVER_ensures(__CPROVER_return_value == 0 || __CPROVER_return_value == 1)
/* completeness: a waiting command is never missed */
__CPROVER_ensures(G_has ==> __CPROVER_return_value == 1)
/* soundness: answer 1 comes with a witness inside [text_start, text_end) */
__CPROVER_ensures(__CPROVER_return_value == 1 ==> (ip->text_start <= G_w && G_w < ip->text_end &&
                   ((ip->iflags & SINGLE_CHAR) ? ip->text[G_w] != 0 : ip->text[G_w] == 0)))
;

/* first_cmd_in_buf: skips leading NULs, returns the start of the first complete command or 0 */
char *V_STATIC(comm_c, first_cmd_in_buf)(interactive_t *ip)
__CPROVER_requires(__CPROVER_is_fresh(ip, sizeof(*ip)) && C13_TXT(ip))
__CPROVER_requires(G_has ==> ((ip->iflags & SINGLE_CHAR) ? C13_WITNESS1(ip) : C13_WITNESS(ip)))
__CPROVER_assigns(ip->text_start, ip->text_end, __CPROVER_object_upto(ip->text, C13_MAX_TEXT))
__CPROVER_ensures(C13_TXT(ip))
/* a non-null answer is the current start of the buffer, holds a non-empty command, and is NUL-terminated before MAX_TEXT */
__CPROVER_ensures(__CPROVER_return_value != 0 ==> (__CPROVER_return_value == ip->text + ip->text_start && ip->text[ip->text_start] != 0 && ip->text_start < ip->text_end))
/* completeness and order: a waiting command is returned, and it starts no later than the witness (nothing non-empty is skipped) */
__CPROVER_ensures(G_has ==> (__CPROVER_return_value != 0 && ip->text_start <= G_a && ip->text_end == __CPROVER_old(ip->text_end)))
;

/* next_cmd_in_buf: advance past the current command and the NULs behind it */
void V_STATIC(comm_c, next_cmd_in_buf)(interactive_t *ip)
__CPROVER_requires(__CPROVER_is_fresh(ip, sizeof(*ip)) && C13_TXT(ip))
__CPROVER_requires(0 <= G_a && G_a < C13_MAX_TEXT && 0 <= G_z && G_z < C13_MAX_TEXT)
__CPROVER_assigns(ip->text_start, ip->text_end, ip->text[0])
__CPROVER_ensures(C13_TXT(ip))
/* progress: either the buffer was emptied or the cursor moved strictly forward, never past text_end */
__CPROVER_ensures((ip->text_start == 0 && ip->text_end == 0) ||
                  (ip->text_end == __CPROVER_old(ip->text_end) && ip->text_start > __CPROVER_old(ip->text_start) && ip->text_start < ip->text_end))
/* the cursor never jumps over a later command: if text[G_a] != 0 lies behind a NUL G_z that follows the old start's command,
   the new start is at or before G_a */
__CPROVER_ensures((__CPROVER_old(G_has) && __CPROVER_old(ip->text_start) <= G_z && G_z < G_a && G_a < __CPROVER_old(ip->text_end) &&
                   __CPROVER_old(ip->text[G_z]) == 0 && __CPROVER_old(ip->text[G_a]) != 0)
                  ==> (ip->text_end == __CPROVER_old(ip->text_end) && ip->text_start <= G_a))
;

/* telnet_neg: backspace/delete editing; output never longer than input, stops at the first NUL.
   Enforced in "light" style by h_telnet_neg.c (requires assumed, ensures asserted by the harness through these macros). */
#define TN_PRE(to, from) (0 <= G_z && G_z < C13_MAX_TEXT && (from)[G_z] == 0)
#define TN_POST(to) (1 <= G_w && G_w <= G_z + 1 && (to)[G_w - 1] == 0)
void V_STATIC(comm_c, telnet_neg)(char *to, char *from)
__CPROVER_requires(TN_PRE(to, from) && __CPROVER_r_ok(from, G_z + 1) && __CPROVER_w_ok(to, G_z + 1))
__CPROVER_assigns(__CPROVER_object_whole(to), G_w)
__CPROVER_ensures(TN_POST(to))
;
#endif
