/*@harness
{"tier":"quick","mode":"unbounded","tus":["src/comm.c"],"stub_out":["add_message","add_vmessage","flush_message"],"enforce":"comm.c:next_cmd_in_buf",
 "flags":["--bounds-check","--pointer-check"],"timeout":900,
 "expect":["next_cmd_in_buf.postcondition","next_cmd_in_buf.loop_invariant_step","next_cmd_in_buf.pointer_dereference"],
 "native":{}}
@*/
/*@prelude file=src/comm.c after="^#include \"lpc/include/origin.h\""
#include "c13_ghost.h"
@*/
/*@loop file=src/comm.c function=next_cmd_in_buf match="while (*p && p < ip->text + ip->text_end)"
__CPROVER_assigns(p)
__CPROVER_loop_invariant(__CPROVER_same_object(p, ip) && ip->text_start <= C13_TOFF(p) && C13_TOFF(p) <= ip->text_end)
__CPROVER_loop_invariant((G_has && ip->text_start <= G_z && G_z < G_a && G_a < ip->text_end && ip->text[G_z] == 0 && ip->text[G_a] != 0) ==> C13_TOFF(p) <= G_z)
__CPROVER_decreases(ip->text_end - C13_TOFF(p))
@*/
/*@loop file=src/comm.c function=next_cmd_in_buf match="while (!*p && p < ip->text + ip->text_end)"
__CPROVER_assigns(p)
__CPROVER_loop_invariant(__CPROVER_same_object(p, ip) && ip->text_start <= C13_TOFF(p) && C13_TOFF(p) <= ip->text_end)
__CPROVER_loop_invariant((G_has && ip->text_start <= G_z && G_z < G_a && G_a < ip->text_end && ip->text[G_z] == 0 && ip->text[G_a] != 0) ==> C13_TOFF(p) <= G_a)
__CPROVER_loop_invariant(C13_TOFF(p) > ip->text_start || ip->text[ip->text_start] == 0 || ip->text_start == ip->text_end)
__CPROVER_decreases(ip->text_end - C13_TOFF(p))
@*/
#include "c13_env.h"
#include "c13_text.h"

void h_next_cmd_in_buf(void) {
  V_NEW(interactive_t, ip);
  V_DECL(long, a); V_DECL(long, z); V_DECL(int, has);
  G_a = a; G_z = z; G_has = has;
#ifdef V_NATIVE
  V_ASSUME(C13_TXT(ip));
#endif
  V_STATIC(comm_c, next_cmd_in_buf)(ip);
  V_POST(C13_TXT(ip), "text cursors well formed");
}
