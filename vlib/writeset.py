"""Field write-set scan on goto programs (supporting static fact, not a proof about aliased writes):
list every ASSIGN whose left-hand side is member <field> reached through '->' or '.', per function."""
import os, re, subprocess, tempfile, shutil
from concurrent.futures import ThreadPoolExecutor


def c_files(core):
    out = []
    for root in ('src', 'lib'):
        for d, _, fs in os.walk(os.path.join(core.REPO, root)):
            if '/tests' in d or '_build' in d:
                continue
            for f in fs:
                if f.endswith('.c'):
                    out.append(os.path.relpath(os.path.join(d, f), core.REPO))
    return sorted(out)


def scan(core, fields, files=None):
    """returns (writers: {(file, function): [lhs texts]}, failed: [files that did not compile])"""
    files = files or c_files(core)
    tmp = tempfile.mkdtemp(prefix='nv_ws_')
    pat = re.compile(r'^\s*(?:\d+:\s*)?ASSIGN\s+(.*?)\s*:=')
    fieldpat = re.compile(r'(?:->|\.)(%s)$' % '|'.join(map(re.escape, fields)))

    def one(rel):
        gb = os.path.join(tmp, rel.replace('/', '__') + '.gb')
        cmd = ['goto-cc'] + core.INC + ['-I' + os.path.dirname(os.path.join(core.REPO, rel)), '-c', os.path.join(core.REPO, rel), '-o', gb]
        r = subprocess.run(cmd, capture_output=True, text=True)
        if r.returncode != 0:
            return rel, None
        r = subprocess.run(['goto-instrument', '--show-goto-functions', gb], capture_output=True, text=True)
        res = {}
        fn = None
        for ln in r.stdout.split('\n'):
            mo = re.match(r'^\s*// \d+ file (\S+) line \d+ function (\S+)', ln)
            if mo:
                fn = mo.group(2)
                continue
            mo = pat.match(ln)
            if mo and fieldpat.search(mo.group(1).strip()):
                res.setdefault(fn, []).append(mo.group(1).strip())
        os.remove(gb)
        return rel, res

    writers, failed = {}, []
    with ThreadPoolExecutor(max_workers=12) as ex:
        for rel, res in ex.map(one, files):
            if res is None:
                failed.append(rel)
            else:
                for fn, l in res.items():
                    writers[(rel, fn)] = l
    shutil.rmtree(tmp, ignore_errors=True)
    return writers, failed
