import argparse, json, os, re, sys, time, threading, hashlib, shutil, importlib.util
from concurrent.futures import ThreadPoolExecutor
from . import core, replay

VERIF = core.VERIF
KF_PATH = os.path.join(VERIF, 'KNOWN_FINDINGS.json')


def load_known(prop):
    try:
        kf = json.load(open(KF_PATH))
    except OSError:
        return []
    return [f for f in kf.get('findings', []) if f['property'] == prop]


def kf_matches(f, harness_name, p):
    if f.get('harness') and f['harness'] != harness_name:
        return False
    if 'matches' in f:
        return any(kf_matches(dict(f, match=m1, matches=None) if False else {'harness': f.get('harness'), 'match': m1}, harness_name, p) for m1 in f['matches'])
    m = f.get('match', {})
    if 'function' in m and m['function'] != p['function']:
        return False
    if 'class' in m and m['class'] != p['class']:
        return False
    if 'line_text' in m and core.cscan.norm(m['line_text']) != core.cscan.norm(p['text']):
        return False
    if 'desc_contains' in m and m['desc_contains'] not in p['desc']:
        return False
    return True


def slug(s):
    return re.sub(r'[^A-Za-z0-9_.-]+', '_', s)[:120]


def obligation_name(prop, hname, p):
    n = '%s.%s.%s.%s' % (prop, hname, p['function'], p['class'])
    if p['class'] == 'assertion' or p['class'] in ('postcondition', 'precondition'):
        n += '[%s]' % p['desc'][:90]
    if p['text'] and p['class'] not in ('postcondition',):
        n += '@"%s"' % p['text'][:80]
    return n


def load_static(prop):
    path = os.path.join(VERIF, 'spec', prop, 'static_facts.py')
    if not os.path.exists(path):
        return None
    spec = importlib.util.spec_from_file_location('static_facts_' + prop, path)
    mod = importlib.util.module_from_spec(spec)
    spec.loader.exec_module(mod)
    return mod


def main(argv=None):
    ap = argparse.ArgumentParser()
    ap.add_argument('prop')
    ap.add_argument('--tier', default=os.environ.get('VERIF_TIER', 'quick'), choices=['quick', 'thorough'])
    ap.add_argument('--only', action='append')
    ap.add_argument('--keep', action='store_true')
    ap.add_argument('--jobs', type=int, default=int(os.environ.get('V_JOBS', '8')))
    ap.add_argument('--replay')
    ap.add_argument('--no-evidence', action='store_true')
    ap.add_argument('-v', action='store_true')
    a = ap.parse_args(argv)
    if a.replay:
        return do_replay(a.replay)
    t0 = time.time()
    prop = a.prop
    seed = int(os.environ.get('VERIF_SEED', '0') or 0)
    pinfo = json.load(open(os.path.join(VERIF, 'spec', prop, 'property.json')))
    ev = {'property_id': prop, 'tier': a.tier, 'seed': seed, 'level': pinfo.get('level', 'proof'),
          'coverage': {}, 'assumptions': [], 'wall_s': 0.0, 'violations': 0}
    evpath = os.path.join(VERIF, 'evidence', prop + '.json')
    os.makedirs(os.path.dirname(evpath), exist_ok=True)
    exit_code = core.EXIT_OK
    undecided = []
    violations = []
    known_lines = []
    results = []
    try:
        if not a.only:
            shutil.rmtree(os.path.join(VERIF, 'replays', prop), ignore_errors=True)
        core.ensure_repo_build()
        hs = core.load_harnesses(prop, a.tier, a.only)
        if not hs:
            raise core.Undecided('no harness for %s in tier %s' % (prop, a.tier))
        known = load_known(prop)
        open_kf = [f for f in known if f.get('status') == 'open']
        heavy_sem = threading.Semaphore(3)

        def job(h):
            sem = heavy_sem if h.heavy else None
            if sem:
                sem.acquire()
            try:
                r = core.run_harness(h, keep=a.keep)
                kfs = [f for f in open_kf if f.get('harness') == h.name]
                if kfs:
                    r['excluded_run'] = core.run_harness(h, keep=a.keep, extra_defines=[f['exclude_define'] for f in kfs if f.get('exclude_define')])
                return h, r
            finally:
                if sem:
                    sem.release()

        with ThreadPoolExecutor(max_workers=a.jobs) as ex:
            for h, r in ex.map(job, hs):
                results.append((h, r))
                core.log('[%s] %-28s %-10s mode=%-12s obligations=%d failed=%d solver=%.1fs %s' % (
                    prop, h.name, r['status'], h.mode,
                    sum(1 for p in r['props'] if p['kind'] == 'obligation'),
                    sum(1 for p in r['props'] if p['kind'] == 'obligation' and p['status'] != 'SUCCESS'),
                    r['solver_s'], r['detail'][:300].replace('\n', ' | ')))
        # static supporting facts (never counted as proved obligations)
        static_facts = []
        mod = load_static(prop)
        if mod:
            for fact in mod.run(core):
                static_facts.append(fact)
                if fact.get('status') == 'violated':
                    violations.append({'harness': 'static', 'name': '%s.static.%s' % (prop, fact['name']), 'prop': None, 'fact': fact, 'h': None})
                elif fact.get('status') == 'undecided':
                    undecided.append('static fact %s: %s' % (fact['name'], fact.get('detail', '')))
        # triage
        for h, r in results:
            if r['status'] == 'undecided':
                undecided.append('%s: %s' % (h.name, r['detail']))
                continue
            kfs = [f for f in open_kf if f.get('harness') == h.name]
            for p in r['props']:
                if p['kind'] != 'obligation' or p['status'] == 'SUCCESS':
                    continue
                if p['status'] not in ('FAILURE',):
                    if not any(q['kind'] == 'obligation' and q['status'] == 'FAILURE' for q in r['props']):
                        undecided.append('%s: obligation %s has status %s' % (h.name, p['id'], p['status']))
                    continue
                mk = [f for f in kfs if kf_matches(f, h.name, p)]
                if mk:
                    p['known'] = mk[0]['id']
                    continue
                violations.append({'harness': h.name, 'name': obligation_name(prop, h.name, p), 'prop': p, 'h': h})
            if kfs:
                er = r.get('excluded_run')
                if er['status'] == 'undecided':
                    undecided.append('%s (known-finding exclusion run): %s' % (h.name, er['detail']))
                else:
                    for p in er['props']:
                        if p['kind'] == 'obligation' and p['status'] != 'SUCCESS':
                            violations.append({'harness': h.name, 'name': obligation_name(prop, h.name, p) + ' (outside the known finding)', 'prop': p, 'h': h})
                for f in kfs:
                    hit = [p for p in r['props'] if p.get('known') == f['id']]
                    if hit:
                        known_lines.append('KNOWN-FINDING: property=%s %s %s' % (prop, f['id'], f['what']))
                    else:
                        core.log('note: known finding %s no longer reproduces (obligation passes)' % f['id'])
        # replays
        seen = set()
        vlines = []
        for v in violations:
            if v['name'] in seen:
                continue
            seen.add(v['name'])
            rdir = os.path.join(VERIF, 'replays', prop)
            os.makedirs(rdir, exist_ok=True)
            rpath = os.path.join(rdir, slug(v['harness'] + '__' + v['name'].split('.', 2)[-1]) + '.json')
            rec = {'property': prop, 'obligation': v['name'], 'harness': v['harness']}
            suffix = ' no-failing-input-found'
            if v['prop'] is None:
                rec['static_fact'] = v['fact']
                if v['fact'].get('confirmed'):
                    suffix = ''
            else:
                p = v['prop']
                rec.update({'cbmc_property': p['id'], 'class': p['class'], 'description': p['desc'], 'file': p['file'],
                            'line': p['line'], 'source_text': p['text'], 'function': p['function']})
                rec['verifier_output'] = summarize_trace(p.get('trace'))
                if len(vlines) < 4:
                    wd = os.path.join(core.tempfile.gettempdir(), 'nv_replay_%s_%s' % (prop, hashlib.md5(v['name'].encode()).hexdigest()[:8]))
                    nr = replay.native_replay(v['h'], p, wd)
                    if not os.environ.get('V_KEEP_REPLAY'):
                        shutil.rmtree(wd, ignore_errors=True)
                    rec['native_replay'] = nr
                    if nr['outcome'] == 'confirmed':
                        suffix = ' confirmed-by-native-replay'
                else:
                    rec['native_replay'] = {'outcome': 'skipped', 'output': 'more than 4 violations; only the first 4 are replayed'}
                rec['replay_cmd'] = 'bin/check %s --replay %s' % (prop, rpath)
            json.dump(rec, open(rpath, 'w'), indent=1, default=str)
            vlines.append('VIOLATION property=%s replay=%s obligation=%s%s' % (prop, rpath, json.dumps(v['name']), suffix))
        for l in known_lines:
            print(l)
        for l in vlines:
            print(l)
        if vlines:
            exit_code = core.EXIT_VIOLATION
        elif undecided:
            exit_code = core.EXIT_UNDECIDED
        ev['violations'] = len(vlines)
        fill_evidence(ev, pinfo, results, static_facts, undecided, known_lines)
    except core.Undecided as e:
        undecided.append(str(e))
        exit_code = core.EXIT_UNDECIDED
        fill_evidence(ev, pinfo, results, [], undecided, known_lines)
    ev['wall_s'] = round(time.time() - t0, 2)
    if not a.no_evidence and not a.only:
        json.dump(ev, open(evpath, 'w'), indent=1)
    for u in undecided:
        print('UNDECIDED property=%s %s' % (prop, u.replace('\n', ' | ')[:1500]))
    print('%s %s: %s (%d harnesses, %d obligations, %d discharged, %.0fs)' % (
        prop, a.tier, {0: 'PASS', 1: 'VIOLATION', 2: 'UNDECIDED'}[exit_code], len(results),
        ev['coverage'].get('obligations', 0) + ev['coverage'].get('bounded', {}).get('obligations', 0),
        ev['coverage'].get('discharged', 0) + ev['coverage'].get('bounded', {}).get('discharged', 0), ev['wall_s']))
    return exit_code


def summarize_trace(trace, limit=120):
    out = []
    started = False
    for st in trace or []:
        if not started:
            # skip static initialisation: start at the first function call
            if st.get('stepType') == 'function-call':
                started = True
            continue
        if st.get('hidden'):
            continue
        t = st.get('stepType')
        sl = st.get('sourceLocation', {})
        if t == 'assignment':
            v = st.get('value', {})
            d = v.get('data')
            if d is None:
                continue
            f = sl.get('file', '')
            if f.startswith('<'):
                continue
            out.append('%s:%s %s = %s' % (os.path.basename(f), sl.get('line'), st.get('lhs'), d))
        elif t == 'failure':
            out.append('FAILURE %s:%s %s' % (os.path.basename(sl.get('file', '')), sl.get('line'), st.get('reason')))
    if len(out) > limit:
        out = out[:limit // 2] + ['... %d steps elided ...' % (len(out) - limit)] + out[-limit // 2:]
    return out


def fill_evidence(ev, pinfo, results, static_facts, undecided, known_lines):
    cov = ev['coverage']
    harn = []
    ob = dis = bob = bdis = 0
    samples = []
    fns = set()
    assumptions = set(pinfo.get('assumptions', []))
    injected = []
    n_assume = 0
    cmds = []
    for h, r in results:
        o = [p for p in r['props'] if p['kind'] == 'obligation']
        d = [p for p in o if p['status'] == 'SUCCESS']
        bounded = h.mode.startswith('bounded')
        if bounded:
            bob += len(o); bdis += len(d)
        else:
            ob += len(o); dis += len(d)
        groups = {}
        for p in o:
            groups.setdefault(p['group'], [0, 0])
            groups[p['group']][0] += 1
            groups[p['group']][1] += p['status'] == 'SUCCESS'
        style = ('dfcc enforce-contract' if h.enforce else ('light: requires assumed / ensures asserted by the harness' + (', loop contracts under dfcc' if h.dfcc else ', plain cbmc')))
        light_fns = [core.plain(x) for x in (h.functions or [])]
        extracted = [i for i in r.get('injected', []) if i.get('kind') == 'extract']
        harn.append({'harness': h.name, 'mode': h.mode, 'function_under_contract': h.enforce, 'style': style,
                     'functions_checked': light_fns, 'flags': h.flags, 'unwind': h.unwind,
                     'stubbed_out_callees': h.meta.get('stub_out', []),
                     'extracted_from_real_code': [{'function': i['function'], 'as': i['name'], 'lines': i['lines'], 'sha256': i['sha256'], 'file': i['file']} for i in extracted],
                     'checks_not_reached_hence_not_counted': sum(1 for p in r['props'] if p['kind'] == 'unreached'),
                     'out_of_scope_checks': sum(1 for p in r['props'] if p['kind'] == 'out-of-scope'),
                     'ignore_rules': h.ignore,
                     'cbmc_cmd': (r.get('cmds') or [''])[-1] if not h.meta.get('reachability') else (r.get('cmds') or ['', ''])[-2],
                     'callees_replaced_by_contract': h.replace, 'real_tus': h.tus, 'back_end': 'cbmc 6.11.0 default SAT (MiniSat 2.2.1)' if not any(f in ('--z3', '--cvc5') or f.startswith('--external-sat') for f in h.flags) else ' '.join(h.flags),
                     'status': r['status'], 'detail': r['detail'][:500], 'solver_s': r['solver_s'], 'wall_s': r.get('wall_s'),
                     'obligations': len(o), 'discharged': len(d), 'obligation_groups': {k: '%d/%d' % (v[1], v[0]) for k, v in sorted(groups.items())},
                     'other_checks_passed': sum(1 for p in r['props'] if p['kind'] != 'obligation' and p['status'] == 'SUCCESS'),
                     'loop_contracts_applied': r.get('loop_contracts_applied', 0), 'cover_points_reached': '%s/%s' % (r.get('cover_satisfied', '-'), r.get('cover_goals', '-')), 'notes': h.notes})
        if h.enforce:
            fns.add(core.plain(h.enforce))
        for x in light_fns:
            fns.add(x + (' [bounded]' if bounded else ''))
        for x in h.replace:
            pass
        for p in o[:3]:
            samples.append(obligation_name(h.prop, h.name, p) + ' -> ' + p['status'])
        for a_ in h.assumptions:
            assumptions.add('%s: %s' % (h.name, a_))
        n_assume += len(re.findall(r'__CPROVER_assume|V_ASSUME|V_STOP', h.text))
        for i in r.get('injected', []):
            injected.append({'harness': h.name, **{k: v for k, v in i.items()}})
            n_assume += len(re.findall(r'__CPROVER_assume', i.get('text', '')))
        cmds += r.get('cmds', [])[-2:]
    cov['obligations'] = ob
    cov['discharged'] = dis
    cov['checker_cmd'] = ' ; '.join(cmds[:2]) if cmds else 'goto-cc | goto-instrument --dfcc | cbmc'
    cov['trusted_base'] = ['cbmc 6.11.0 + goto-cc C semantics (machine integers are bit-vectors, not mathematical)',
                           'MiniSat back end', 'goto-instrument --dfcc contract instrumentation',
                           'trusted stubs and assumed contracts listed under assumptions'] + pinfo.get('trusted_base', [])
    cov['bounded'] = {'obligations': bob, 'discharged': bdis, 'note': 'obligations of harnesses whose mode is bounded(...): stand-ins, not counted as proved'}
    cov['functions_under_contract'] = sorted(fns)
    cov['harnesses'] = harn
    cov['samples'] = samples[:40] or ['(no obligations produced)']
    cov['injected_text'] = injected
    cov['assume_scan_count'] = n_assume
    cov['supporting_static_facts'] = static_facts
    cov['undecided'] = undecided
    cov['known_findings_reported'] = known_lines
    cov['explanation'] = pinfo.get('explanation', '')
    cov['unverified'] = pinfo.get('unverified', [])
    # generic fallback keys too (measured)
    cov['evaluations'] = ob + bob
    cov['distinct_nontrivial'] = len(set(p['group'] for h, r in results for p in r['props'] if p['kind'] == 'obligation'))
    cov['rule'] = 'one evaluation = one CBMC property classified as an obligation; distinct = distinct (function, class[, assertion text]) groups'
    ev['assumptions'] = sorted(assumptions)
    if ev['level'] == 'proof' and (ob == 0 or ob != dis):
        # a proof-level file must have every obligation discharged; otherwise say what it is
        ev['level'] = 'other'
        cov['explanation'] = 'NOT A PROOF ON THIS RUN: %d of %d obligations discharged. ' % (dis, ob) + cov['explanation']


def do_replay(path):
    rec = json.load(open(path))
    print(json.dumps({k: rec.get(k) for k in ('property', 'obligation', 'file', 'line', 'source_text', 'description')}, indent=1))
    nr = rec.get('native_replay')
    if nr:
        print('native replay outcome:', nr.get('outcome'))
        print(nr.get('output', '')[-3000:])
    for l in rec.get('verifier_output', [])[-60:]:
        print('  ', l)
    return 0
