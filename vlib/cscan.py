"""Minimal C source scanner used by the injector.

Works on *unpreprocessed* text.  mask() blanks comments, string/char literals
and preprocessor directives (same length, newlines kept), so that offsets found
in the masked text are valid in the original text.
"""
import re


def mask(src):
    out = list(src)
    i, n = 0, len(src)
    bol = True  # at beginning of line (only whitespace so far)
    while i < n:
        c = src[i]
        if c == '/' and i + 1 < n and src[i + 1] == '*':
            j = src.find('*/', i + 2)
            j = n if j < 0 else j + 2
            for k in range(i, j):
                if out[k] != '\n':
                    out[k] = ' '
            i = j
            continue
        if c == '/' and i + 1 < n and src[i + 1] == '/':
            j = src.find('\n', i)
            j = n if j < 0 else j
            for k in range(i, j):
                out[k] = ' '
            i = j
            continue
        if c == '"' or c == "'":
            q = c
            j = i + 1
            while j < n and src[j] != q:
                if src[j] == '\\':
                    j += 1
                if j < n and src[j] == '\n':
                    break
                j += 1
            j = min(j + 1, n)
            for k in range(i + 1, j - 1):
                if out[k] != '\n':
                    out[k] = ' '
            i = j
            bol = False
            continue
        if c == '#' and bol:
            # preprocessor directive, with continuation lines
            j = i
            while j < n:
                e = src.find('\n', j)
                if e < 0:
                    e = n
                    break
                if src[e - 1] == '\\':
                    j = e + 1
                    continue
                break
            for k in range(i, e):
                if out[k] != '\n':
                    out[k] = ' '
            i = e
            continue
        if c == '\n':
            bol = True
        elif not c.isspace():
            bol = False
        i += 1
    return ''.join(out)


def match_close(m, i, open_c, close_c):
    """m[i] == open_c; return index of the matching close_c."""
    depth = 0
    n = len(m)
    while i < n:
        if m[i] == open_c:
            depth += 1
        elif m[i] == close_c:
            depth -= 1
            if depth == 0:
                return i
        i += 1
    raise ValueError('unbalanced %s' % open_c)


def find_function(src, m, name):
    """Return (sig_start, body_open, body_close) of the definition of `name`."""
    hits = []
    for mo in re.finditer(r'\b' + re.escape(name) + r'\s*\(', m):
        # brace depth at this point must be 0
        depth = m.count('{', 0, mo.start()) - m.count('}', 0, mo.start())
        if depth != 0:
            continue
        try:
            close = match_close(m, mo.end() - 1, '(', ')')
        except ValueError:
            continue
        j = close + 1
        while j < len(m) and m[j].isspace():
            j += 1
        if j < len(m) and m[j] == '{':
            hits.append((mo.start(), j, match_close(m, j, '{', '}')))
    if len(hits) != 1:
        raise LookupError('function %s: %d definitions found' % (name, len(hits)))
    return hits[0]


def norm(s):
    return re.sub(r'\s+', '', s)


def find_loops(src, m, body_open, body_close):
    """Loops of a function body in source order.
    Each: dict(kind, header (normalised text), insert_at (offset where loop
    contract clauses go), kw_at)."""
    loops = []
    pending_do = []  # brace depths of open do statements
    depth = 0
    i = body_open
    tok = re.compile(r'[{}]|\b(?:for|while|do)\b')
    pos = body_open
    while True:
        mo = tok.search(m, pos, body_close + 1)
        if not mo:
            break
        t = mo.group(0)
        pos = mo.end()
        if t == '{':
            depth += 1
        elif t == '}':
            depth -= 1
        elif t == 'do':
            d = {'kind': 'do', 'kw_at': mo.start(), 'depth': depth, 'header': None, 'insert_at': None}
            loops.append(d)
            pending_do.append(d)
        else:
            j = mo.end()
            while m[j].isspace():
                j += 1
            if m[j] != '(':
                continue
            close = match_close(m, j, '(', ')')
            k = close + 1
            while m[k].isspace():
                k += 1
            if t == 'while' and pending_do and pending_do[-1]['depth'] == depth and m[k] == ';':
                d = pending_do.pop()
                d['header'] = norm('do...' + src[mo.start():close + 1])
                d['insert_at'] = close + 1
            else:
                loops.append({'kind': t, 'kw_at': mo.start(), 'depth': depth,
                              'header': norm(src[mo.start():close + 1]), 'insert_at': close + 1})
            pos = close + 1
    for d in loops:
        if d['insert_at'] is None:
            raise ValueError('do without while')
    return loops


def rename_definitions(src, names, prefix='v_real_'):
    """Rename the *definitions* of the given functions (calls keep the original name, which a stub then provides);
    a forward declaration under the original name, copied from the definition's own signature, is emitted first."""
    m = mask(src)
    edits = []
    for fn in names:
        try:
            sig, bo, bc = find_function(src, m, fn)
            edits.append((sig, fn))
        except LookupError:
            pass
    done = []
    for sig, fn in sorted(edits, reverse=True):
        k2 = sig - 1
        while k2 > 0 and m[k2] not in ';}':
            k2 -= 1
        ds = k2 + 1 if k2 > 0 else 0
        while ds < sig and m[ds].isspace():
            ds += 1
        close = match_close(m, src.index('(', sig), '(', ')')
        proto = ' '.join(src[ds:close + 1].split()) + '; '   # single line: keeps the line numbering of the file
        src = src[:ds] + proto + src[ds:sig] + prefix + src[sig:]
        done.append(fn)
    return src, done
