"""Counterexample -> native replay twin.

The harness file itself is the twin: compiled with -DV_NATIVE, after the real
TU(s) from /repo, under ASan+UBSan.  Values CBMC chose for V_DECL / V_NEW /
V_FILL sites are turned into replay_values.h.
"""
import json, os, re, subprocess, tempfile, shutil
from . import core

RUNTIME = r'''
#include <stdio.h>
#include <stdlib.h>
#include <string.h>
void v_violation(const char *kind, const char *msg, const char *file, int line) {
  fflush(stdout); fprintf(stderr, "V_VIOLATION %s: %s (%s:%d)\n", kind, msg, file, line); fflush(stderr); _Exit(99); }
void v_assume_failed(const char *cond, const char *file, int line) {
  fprintf(stderr, "V_ASSUME_FAILED %s (%s:%d)\n", cond, file, line); fflush(stderr); _Exit(77); }
void v_stop(void) { fprintf(stderr, "V_STOP path ends (error/longjmp model)\n"); fflush(stderr); _Exit(0); }
struct v_site { const char *name; int n; int pos; const long long *vals; };
static int v_rt_streq(const char *a, const char *b) { while (*a && *a == *b) { a++; b++; } return *a == *b; }
'''


def int_of(v):
    if v.get('name') == 'integer' or 'binary' in v:
        b = v.get('binary')
        if b is None:
            return None
        val = int(b, 2)
        t = v.get('type', '')
        signed = not ('unsigned' in t or t in ('__CPROVER_size_t', 'size_t', '_Bool', 'uint64_t', 'uint32_t', 'uint16_t', 'uint8_t', 'BYTE'))
        if signed and b[0] == '1' and len(b) > 1:
            val -= 1 << len(b)
        return val
    return None


def tree_assignments(v, path, out):
    n = v.get('name')
    if n == 'struct':
        for m in v.get('members', []):
            if not re.match(r'^[A-Za-z_]\w*$', m.get('name', '')):
                continue
            tree_assignments(m['value'], path + '.' + m['name'], out)
    elif n == 'array':
        for e in v.get('elements', []):
            tree_assignments(e['value'], '%s[%d]' % (path, e['index']), out)
    elif n == 'union':
        pass
    elif n == 'pointer':
        pass
    else:
        iv = int_of(v)
        if iv is not None and iv != 0:
            out.append((path, iv))


def extract(trace, texts):
    """texts: list of harness source texts.  Returns (scalars{name:[vals]}, structs{tag:[(path,val)]})."""
    alltext = '\n'.join(texts)
    scal_names = set(re.findall(r'V_DECL\(\s*[\w ]+?\s*,\s*(\w+)\s*\)', alltext))
    tags = set(re.findall(r'V_NEW\(\s*[\w ]+?\s*,\s*(\w+)\s*\)', alltext)) | set(re.findall(r'V_FILL\([^;]*?,\s*(\w+)\s*\)\s*;', alltext))
    scalars = {n: [] for n in scal_names}
    structs = {t: None for t in tags}
    pending = None
    for st in trace or []:
        if st.get('stepType') != 'assignment':
            continue
        lhs = st.get('lhs', '')
        hidden = st.get('hidden')
        if lhs.endswith('_val') and lhs[:-4] in structs and structs[lhs[:-4]] is None:
            if hidden:
                pending = lhs[:-4]   # declaration step; the value follows as return_value_nondet_<T>
                continue
            out = []
            tree_assignments(st.get('value', {}), '', out)
            structs[lhs[:-4]] = out
            pending = None
        elif pending and not hidden and lhs.startswith('return_value_nondet_') and '.' not in lhs and '[' not in lhs:
            out = []
            tree_assignments(st.get('value', {}), '', out)
            structs[pending] = out
            pending = None
        elif lhs in scalars and st.get('assignmentType') == 'variable' and not hidden:
            iv = int_of(st.get('value', {}))
            if iv is not None:
                scalars[lhs].append(iv)
    return scalars, structs


def values_header(scalars, structs):
    o = [RUNTIME]
    for n, vals in scalars.items():
        o.append('static const long long v_vals_%s[] = {%s};' % (n, ', '.join('%dLL' % v if v > -(1 << 63) else '(-9223372036854775807LL-1)' for v in vals) or '0'))
    o.append('static struct v_site v_sites[] = {')
    for n, vals in scalars.items():
        o.append('  {"%s", %d, 0, v_vals_%s},' % (n, len(vals), n))
    o.append('  {0,0,0,0}};')
    o.append(r'''long long v_next(const char *name) {
  for (struct v_site *s = v_sites; s->name; s++) if (v_rt_streq(s->name, name)) {
    if (s->pos < s->n) return s->vals[s->pos++];
    return 0; }
  return 0; }''')
    for t, assigns in structs.items():
        lines = []
        for pth, v in (assigns or []):
            acc = '(*(p_))' + pth
            lines.append('%s = %s;' % (acc, ('%dULL' % v) if v >= 0 else ('(%dLL)' % v)))
        o.append('#define V_FILLFN_%s(p_) do { %s } while (0)' % (t, ' '.join(lines)))
    return '\n'.join(o) + '\n'


def native_replay(h, prop, workdir):
    """Build and run the native twin for failing CBMC property `prop` (with trace).
    Returns dict(outcome: confirmed|clean|unreplayable|nobuild, output)."""
    nat = h.native
    if nat is None:
        return {'outcome': 'no-twin', 'output': 'harness declares no native twin'}
    texts = [h.text] + [open(os.path.join(core.VERIF, e)).read() for e in h.extra_src]
    # harness bodies shared through headers of the spec directory (#include "c01_xxx.h") declare V_DECL / V_FILL inputs too
    seen = set()
    def add_includes(text):
        for mo in re.finditer(r'^\s*#\s*include\s+"([^"]+)"', text, re.M):
            cand = os.path.join(os.path.dirname(h.path), mo.group(1))
            if os.path.isfile(cand) and cand not in seen:
                seen.add(cand)
                t = open(cand).read()
                texts.append(t)
                add_includes(t)
    add_includes(h.text)
    scalars, structs = extract(prop.get('trace'), texts)
    os.makedirs(workdir, exist_ok=True)
    open(os.path.join(workdir, 'replay_values.h'), 'w').write(values_header(scalars, structs))
    w = ['#include "replay_values.h"']
    # callees whose bodies are stubbed out for CBMC: natively the *definition* in a copy of the TU is renamed
    # (v_real_<fn>), calls keep the original name and therefore reach the harness stub, exactly as under CBMC
    so = [core.plain(x) for x in h.meta.get('stub_out', [])]
    from . import cscan
    for k, tu in enumerate(nat.get('tus', h.tus)):
        path = os.path.join(core.REPO, tu)
        text = open(path).read()
        injs = [i for i in h.injections if i.get('file') == tu and i['kind'] in ('inject', 'prelude', 'extract')] if nat.get('inject') else []
        if injs:
            # ghost statements the harness depends on (e.g. the one-instruction step counter) are needed natively too:
            # same injector, same identity proof as for the CBMC build
            sub = os.path.join(workdir, 'inj%d' % k)
            os.makedirs(sub, exist_ok=True)
            dst, _lm, _f = core.inject(tu, injs, sub)
            text = open(dst).read()
        src, edits = cscan.rename_definitions(text, so)
        if edits or injs:
            path = os.path.join(workdir, 'tu%d_%s' % (k, os.path.basename(tu)))
            open(path, 'w').write('#line 1 "%s"\n' % os.path.join(core.REPO, tu) + src)
        w.append('#include "%s"' % path)
    for e in h.extra_src:
        w.append('#include "%s"' % os.path.join(core.VERIF, e))
    w.append('#include "%s"' % h.path)
    w.append('int main(void) { %s(); fprintf(stderr, "V_DONE harness returned normally\\n"); return 0; }' % h.entry)
    open(os.path.join(workdir, 'wrapper.c'), 'w').write('\n'.join(w) + '\n')
    specdir = os.path.dirname(h.path)
    cc = shutil.which('gcc') or 'cc'
    cmd = [cc, '-g', '-O0', '-w', '-fsanitize=address,undefined', '-fno-sanitize-recover=undefined', '-fno-omit-frame-pointer',
           '-no-pie', '-fno-pie', '-DV_NATIVE'] + core.INC + ['-I' + os.path.join(core.VERIF, 'vlib'), '-I' + specdir, '-I' + os.path.join(core.VERIF, 'spec'), '-I' + workdir]
    for tu in h.tus:
        cmd.append('-I' + os.path.dirname(os.path.join(core.REPO, tu)))
    for r in nat.get('rename', []):
        cmd.append('-D%s=v_stub_%s' % (r, r))
    for d in list(h.defines) + nat.get('defines', []):
        cmd.append('-D' + d)
    cmd += ['wrapper.c', '-o', 'replay', '-Wl,--unresolved-symbols=ignore-all', '-lm'] + nat.get('libs', [])
    r = subprocess.run(cmd, cwd=workdir, capture_output=True, text=True)
    if r.returncode != 0:
        return {'outcome': 'nobuild', 'output': (r.stdout + r.stderr)[-3000:], 'cmd': ' '.join(cmd),
                'inputs': {'scalars': scalars, 'structs': {k: (v or [])[:200] for k, v in structs.items()}}}
    env = dict(os.environ, ASAN_OPTIONS='detect_leaks=0:abort_on_error=0:exitcode=98', UBSAN_OPTIONS='print_stacktrace=1:exitcode=97')
    try:
        rr = subprocess.run(['./replay'], cwd=workdir, capture_output=True, text=True, timeout=60, env=env, errors='replace')
        out = (rr.stdout + rr.stderr)[-6000:]
        rc = rr.returncode
    except subprocess.TimeoutExpired:
        out, rc = 'native replay timed out (60 s)', -1
    if rc in (126, 127) or 'error while loading shared libraries' in out:
        return {'outcome': 'nobuild', 'rc': rc, 'output': out, 'cmd': ' '.join(cmd)}
    san = 'AddressSanitizer' in out or 'runtime error:' in out or rc in (97, 98) or (rc < 0 and rc != -1)
    first_frame = None
    for ln in out.split('\n'):
        mo = re.search(r'#\d+ .* (/\S+?):\d+', ln)
        if mo and (mo.group(1).startswith(core.REPO + '/') or mo.group(1).startswith(core.VERIF + '/')):
            first_frame = mo.group(1)
            break
    if 'runtime error:' in out and first_frame is None:
        mo = re.search(r'(/\S+?):\d+:\d+: runtime error:', out)
        first_frame = mo.group(1) if mo else None
    if 'V_VIOLATION' in out or rc == 99:
        oc = 'confirmed'
    elif 'pc points to the zero page' in out:
        oc = 'harness-error'   # call through an unresolved symbol: the twin lacks a stub
    elif san and first_frame and first_frame.startswith(core.REPO + '/'):
        oc = 'confirmed'
    elif san:
        oc = 'harness-error'   # the twin itself crashed outside the real code: says nothing about /repo
    elif 'V_ASSUME_FAILED' in out:
        oc = 'unreplayable'
    else:
        oc = 'clean'
    return {'outcome': oc, 'rc': rc, 'output': out, 'cmd': ' '.join(cmd),
            'inputs': {'scalars': scalars, 'structs': {k: (v or [])[:400] for k, v in structs.items()}}}
