"""Contract-based deductive verification driver for taedlar/neolith (CBMC 6.11).

See /verif/DESIGN.md section 2.  One *harness file* (spec/Cxx/h_*.c) carries
  - a /*@harness {json} @*/ block (settings),
  - /*@prelude ... @*/ and /*@loop ... @*/ blocks (text injected into a scratch
    copy of the real TU: only __CPROVER_ clauses, ghost declarations, includes),
  - the CBMC contracts on re-declarations of the real functions, the trusted
    stubs and the proof harness function itself.
"""
import json, os, re, shutil, subprocess, sys, tempfile, time, hashlib, resource, fcntl
from concurrent.futures import ThreadPoolExecutor
from . import cscan

REPO = os.environ.get('V_REPO', '/repo')
VERIF = os.path.dirname(os.path.dirname(os.path.abspath(__file__)))
BUILD = os.path.join(REPO, '_build')
INC = ['-DHAVE_CONFIG_H', '-D_GNU_SOURCE'] + ['-I' + p for p in [
    BUILD, REPO + '/src', REPO, REPO + '/lib/port/..', REPO + '/lib/logger/..', REPO + '/lib/misc',
    REPO + '/lib/lpc/..', BUILD + '/lib/lpc', BUILD + '/lib/efuns', REPO + '/lib/efuns', REPO + '/lib/rc',
    REPO + '/lib/socket', REPO + '/lib/async/..', REPO + '/lib']]

EXIT_OK, EXIT_VIOLATION, EXIT_UNDECIDED = 0, 1, 2
MARK_O, MARK_C = '/*@V<*/', '/*@V>*/'


class Undecided(Exception):
    pass


def log(*a):
    print(*a, file=sys.stderr, flush=True)


# --------------------------------------------------------------------- spec

BLOCK = re.compile(r'/\*@(harness|prelude|loop|inject|extract)\b([^\n]*)\n(.*?)@\*/', re.S)
ATTR = re.compile(r'(\w+)=(?:"((?:[^"\\]|\\.)*)"|(\S+))')


class Harness:
    def __init__(self, prop, path):
        self.prop = prop
        self.path = path
        self.name = os.path.basename(path)[2:-2] if os.path.basename(path).startswith('h_') else os.path.basename(path)[:-2]
        text = open(path).read()
        self.text = text
        self.meta = None
        self.injections = []  # dicts: kind, file, function, match, nth, after, at, text
        for mo in BLOCK.finditer(text):
            kind, attrs, body = mo.group(1), mo.group(2), mo.group(3)
            if kind == 'harness':
                self.meta = json.loads(body)
                continue
            a = {k: (v1 if v1 != '' or v2 is None else v2) if v2 is None or v1 else v2
                 for k, v1, v2 in ATTR.findall(attrs)}
            a = {k: v.replace('\\"', '"') for k, v in a.items()}
            a['kind'] = kind
            a['text'] = body.strip('\n')
            self.injections.append(a)
        if self.meta is None:
            raise Undecided('%s: no /*@harness block' % path)
        m = self.meta
        self.tier = m.get('tier', 'quick')
        self.mode = m.get('mode', 'unbounded')  # unbounded | width | bounded(N ...)
        self.tus = m.get('tus', [])
        self.entry = m.get('entry', 'h_' + self.name)
        self.enforce = m.get('enforce')
        self.replace = m.get('replace', [])
        self.flags = m.get('flags', ['--bounds-check', '--pointer-check'])
        self.unwind = m.get('unwind', None)
        self.ignore = m.get('ignore', [])  # [{class, text_contains, why}] checks declared out of scope (listed in evidence)
        self.timeout = m.get('timeout', 600)
        self.mem_gb = m.get('mem_gb', 12)
        self.heavy = m.get('heavy', False)
        self.dfcc = m.get('dfcc', True)
        self.native = m.get('native', None)
        self.defines = m.get('defines', [])
        self.extra_src = m.get('extra_src', [])  # other /verif files to compile and link (shared stubs)
        self.expect_groups = m.get('expect', [])  # obligation groups that must be present (vacuity guard)
        self.notes = m.get('notes', '')
        self.assumptions = m.get('assumptions', [])
        self.functions = m.get('functions', None)  # real functions whose safety checks are obligations (default: enforce + loop-injected)


def mangled(name):
    """'comm.c:copy_chars' -> __CPROVER_file_local_comm_c_copy_chars"""
    if ':' in name:
        f, fn = name.split(':')
        return '__CPROVER_file_local_%s_%s' % (re.sub(r'\W', '_', f), fn)
    return name


def unmangle(fn):
    mo = re.match(r'__CPROVER_file_local_\w+?_c_(\w+)$', fn)
    return mo.group(1) if mo else fn


def plain(name):
    return name.split(':')[-1]


def load_harnesses(prop, tier, only=None):
    d = os.path.join(VERIF, 'spec', prop)
    hs = []
    for f in sorted(os.listdir(d)):
        if f.startswith('h_') and f.endswith('.c'):
            h = Harness(prop, os.path.join(d, f))
            if only and h.name not in only:
                continue
            if tier == 'quick' and h.tier != 'quick':
                continue
            hs.append(h)
    return hs


# ----------------------------------------------------------------- injector

def inject(tu_rel, injections, scratch):
    """Copy REPO/tu_rel to scratch/<basename> with the injections applied.
    Returns (scratch_path, linemap: scratch line -> original line, fired list).
    Identity proof: stripping the marked insertions must give the original bytes."""
    src_path = os.path.join(REPO, tu_rel)
    src = open(src_path).read()
    m = cscan.mask(src)
    inserts = []  # (offset, text)
    fired = []
    for inj in sorted(injections, key=lambda x: x['kind'] == 'extract'):
        if inj['kind'] == 'prelude':
            if 'after' in inj:
                mo = re.search(inj['after'], src, re.M)
                if not mo:
                    raise Undecided('extraction break: prelude anchor %r not found in %s' % (inj['after'], tu_rel))
                off = src.find('\n', mo.end())
                off = len(src) if off < 0 else off + 1
            else:
                off = 0
            inserts.append((off, MARK_O + '\n' + inj['text'] + '\n' + MARK_C + '\n'))
            fired.append({'kind': 'prelude', 'file': tu_rel, 'text': inj['text']})
            continue
        try:
            sig, bo, bc = cscan.find_function(src, m, inj['function'])
        except LookupError as e:
            raise Undecided('extraction break: %s in %s' % (e, tu_rel))
        if inj['kind'] == 'loop':
            loops = cscan.find_loops(src, m, bo, bc)
            want = cscan.norm(inj['match'])
            cands = [l for l in loops if l['header'] == want]
            nth = int(inj.get('nth', 1))
            if len(cands) < nth:
                raise Undecided('extraction break: loop %r (nth=%d) not found in %s:%s (loops there: %s)' % (
                    inj['match'], nth, tu_rel, inj['function'], [l['header'] for l in loops]))
            if 'count' in inj and len(cands) != int(inj['count']):
                raise Undecided('extraction break: loop %r expected %s times in %s, found %d' % (
                    inj['match'], inj['count'], inj['function'], len(cands)))
            l = cands[nth - 1]
            inserts.append((l['insert_at'], MARK_O + '\n' + inj['text'] + '\n' + MARK_C))
            fired.append({'kind': 'loop', 'file': tu_rel, 'function': inj['function'], 'loop': inj['match'],
                          'nth': nth, 'text': inj['text'], 'n_loops_in_function': len(loops)})
        elif inj['kind'] == 'extract':
            # mechanical extraction of one `case` block of a big switch (eval_instruction): the lines from the line `from`
            # up to (not including) the line `to` are copied, byte for byte, from the function body into a new function
            #   void <name>(void) { <declarations given in the block> switch (instruction) { <copied lines> } }
            # appended to the scratch TU.  `break` / `return` inside the copied lines keep their meaning.  What the extraction
            # drops: the dispatch loop around the switch (opcode fetch, eval_cost accounting) and every other case.
            def find_line(txt, nth=1):
                want = cscan.norm(txt)
                hits = [(bo + lm.start(), bo + lm.end()) for lm in re.finditer(r'[^\n]*\n', src[bo:bc]) if cscan.norm(lm.group(0)) == want]
                if len(hits) < nth:
                    raise Undecided('extraction break: line %r not found in %s' % (txt, inj['function']))
                return hits[nth - 1]
            fs, _ = find_line(inj['from'], int(inj.get('nth', 1)))
            ts, _ = find_line(inj['to'], int(inj.get('to_nth', 1)))
            if not fs < ts:
                raise Undecided('extraction break: `to` line precedes `from` line in %s' % inj['function'])
            piece = src[fs:ts]
            extra_open = piece.count('{') - piece.count('}')
            if extra_open != int(inj.get('open_braces', 0)):
                raise Undecided('extraction break: the lines extracted from %s (%r .. %r) leave %d brace(s) open, expected %s' % (inj['function'], inj['from'], inj['to'], extra_open, inj.get('open_braces', 0)))
            # wrap=switch (default): one-case switch for `case X:` blocks; wrap=block: plain braces for a run of statements.
            # ret= gives the return type of the generated function (the copied lines may contain `return expr;`), tail= a
            # statement executed when the copied lines fall through.
            ret_t = inj.get('ret', 'void')
            if inj.get('wrap', 'switch') == 'block':
                head = MARK_O + '\n%s %s(void) {\n%s\n{\n' % (ret_t, inj['name'], inj['text'])
            else:
                head = MARK_O + '\n%s %s(void) {\n%s\nswitch (instruction) {\n' % (ret_t, inj['name'], inj['text'])
            tail = '}' * max(extra_open, 0) + '}\n%s\n}\n' % inj.get('tail', '') + MARK_C + '\n'   # open_braces=N: the slice ends inside N blocks it opened; they are closed here
            first_line = src.count('\n', 0, fs) + 1
            # ghost statements injected into the copied lines (other /*@inject blocks of this harness) are copied with them
            inner = sorted([x for x in inserts if fs <= x[0] < ts and len(x) < 3], key=lambda x: x[0])
            body, origin, pos0 = '', [], fs
            for off, text in [(x[0], x[1]) for x in inner] + [(ts, '')]:
                seg = src[pos0:off]
                base = src.count('\n', 0, pos0) + 1
                origin += [base + k for k in range(seg.count('\n'))]
                body += seg
                origin += [src.count('\n', 0, off) + 1] * text.count('\n')
                body += text
                pos0 = off
            origin = [None] * head.count('\n') + origin
            inserts.append((len(src), head + body + tail, origin))
            fired.append({'kind': 'extract', 'file': tu_rel, 'function': inj['function'], 'name': inj['name'], 'from': inj['from'], 'to': inj['to'],
                          'lines': [first_line, first_line + piece.count('\n') - 1], 'sha256': hashlib.sha256(piece.encode()).hexdigest(), 'text': inj['text']})
        elif inj['kind'] == 'inject':
            at = inj.get('at', 'entry')
            if at == 'entry':
                inserts.append((bo + 1, MARK_O + '\n' + inj['text'] + '\n' + MARK_C))
            elif at in ('before', 'wrap'):
                want = cscan.norm(inj['match'])
                hits = []
                for lm in re.finditer(r'[^\n]*\n', src[bo:bc]):
                    if cscan.norm(lm.group(0)) == want:
                        hits.append((bo + lm.start(), bo + lm.end()))
                nth = int(inj.get('nth', 1))
                if len(hits) < nth:
                    raise Undecided('extraction break: line %r not found in %s' % (inj['match'], inj['function']))
                ls, le = hits[nth - 1]
                # the insertion point must be a statement boundary inside a block, otherwise the
                # injected ghost statement would change the control flow of the real code
                k = ls - 1
                while k > bo and m[k].isspace():
                    k -= 1
                if at == 'before':
                    if m[k] not in ';{}:':
                        raise Undecided('injection before %r in %s is not at a statement boundary (use at=wrap)' % (inj['match'], inj['function']))
                    inserts.append((ls, MARK_O + '\n' + inj['text'] + '\n' + MARK_C + '\n'))
                else:
                    stmt = m[ls:le].strip()
                    if not stmt.endswith(';') or stmt.count(';') != 1 or '{' in stmt or '}' in stmt:
                        raise Undecided('at=wrap needs a single simple statement line, got %r' % src[ls:le])
                    inserts.append((ls, MARK_O + '\n{ ' + inj['text'] + '\n' + MARK_C + '\n'))
                    inserts.append((le, MARK_O + '\n}\n' + MARK_C + '\n'))
            else:
                raise Undecided('bad inject at=%s' % at)
            fired.append({'kind': 'inject', 'file': tu_rel, 'function': inj['function'], 'at': at, 'text': inj['text']})
    inserts = [(x[0], x[1], x[2] if len(x) > 2 else None) for x in inserts]
    inserts.sort(key=lambda x: x[0])
    out, linemap = [], []
    pos = 0
    cur_line = 1
    pieces = []
    for off, text, xmap in inserts:
        pieces.append(('o', src[pos:off], None))
        pieces.append(('i', text, xmap))
        pos = off
    pieces.append(('o', src[pos:], None))
    new = ''.join(p[1] for p in pieces)
    # line map (lines of an extracted case block map back to the lines they were copied from)
    oline = 1
    for kind, p, xmap in pieces:
        k = 0
        for ch in p:
            if ch == '\n':
                if xmap and k < len(xmap) and xmap[k] is not None:
                    linemap.append(xmap[k])
                else:
                    linemap.append(oline)
                k += 1
                if kind == 'o':
                    oline += 1
        # partial last line handled by following piece
    linemap.append(oline)
    # identity proof
    rebuilt = ''.join(p[1] for p in pieces if p[0] == 'o')
    if rebuilt != src:
        raise Undecided('identity proof failed for %s' % tu_rel)
    # independent check: remove every marked region literally
    tmp = new
    for _, text, _x in inserts:
        if tmp.count(text) < 1:
            raise Undecided('identity proof failed (marker) for %s' % tu_rel)
        tmp = tmp.replace(text, '', 1)
    if tmp != src:
        raise Undecided('identity proof failed (strip) for %s' % tu_rel)
    dst = os.path.join(scratch, os.path.basename(tu_rel))
    open(dst, 'w').write(new)
    return dst, linemap, fired


# -------------------------------------------------------------------- build

_build_done = False


def ensure_repo_build():
    """cmake --build for generated headers and native objects (serialised by flock)."""
    global _build_done
    if _build_done or os.environ.get('V_SKIP_BUILD'):
        return
    if not os.path.exists(os.path.join(BUILD, 'build.ninja')):
        r = subprocess.run(['cmake', '-G', 'Ninja', '-B', BUILD, '-S', REPO], capture_output=True, text=True)
        if r.returncode:
            raise Undecided('cmake configure failed:\n' + r.stdout[-2000:] + r.stderr[-2000:])
    lock = open('/tmp/.neolith_verif_build.lock', 'w')
    fcntl.flock(lock, fcntl.LOCK_EX)
    try:
        r = subprocess.run(['cmake', '--build', BUILD], capture_output=True, text=True)
        if r.returncode:
            raise Undecided('repo build failed:\n' + r.stdout[-3000:] + r.stderr[-2000:])
    finally:
        fcntl.flock(lock, fcntl.LOCK_UN)
    _build_done = True


def run(cmd, cwd=None, timeout=None, mem_gb=None, stdout=None):
    def pre():
        if mem_gb:
            lim = int(mem_gb * (1 << 30))
            resource.setrlimit(resource.RLIMIT_AS, (lim, lim))
        os.setsid()
    t0 = time.time()
    p = subprocess.Popen(cmd, cwd=cwd, stdout=stdout or subprocess.PIPE, stderr=subprocess.PIPE, text=True, preexec_fn=pre)
    try:
        out, err = p.communicate(timeout=timeout)
    except subprocess.TimeoutExpired:
        try:
            os.killpg(p.pid, 9)
        except Exception:
            pass
        p.wait()
        return None, '', 'TIMEOUT', time.time() - t0
    return p.returncode, out, err, time.time() - t0


def src_lines(path):
    try:
        return open(path, errors='replace').read().split('\n')
    except OSError:
        return []


class Result:
    pass


def run_harness(h, keep=False, extra_defines=()):
    """Build + verify one harness.  Returns dict with per-property results."""
    t0 = time.time()
    scratch = tempfile.mkdtemp(prefix='nv_%s_%s_' % (h.prop, h.name))
    res = {'harness': h.name, 'property': h.prop, 'mode': h.mode, 'tier': h.tier, 'scratch': scratch,
           'enforce': h.enforce, 'replace': h.replace, 'tus': h.tus, 'injected': [], 'props': [],
           'status': 'ok', 'detail': '', 'solver_s': 0.0, 'cmds': []}
    try:
        gbs = []
        linemaps = {}
        specdir = os.path.dirname(h.path)
        inc = INC + ['-I' + os.path.join(VERIF, 'vlib'), '-I' + specdir, '-I' + os.path.join(VERIF, 'spec')] + ['-D' + d for d in list(h.defines) + list(extra_defines)]
        for tu in h.tus:
            injs = [i for i in h.injections if i.get('file') == tu]
            dst, lm, fired = inject(tu, injs, scratch)
            linemaps[os.path.basename(dst)] = (tu, lm)
            res['injected'] += fired
            inc_tu = h.meta.get('include_tu')
            if inc_tu is True or (isinstance(inc_tu, list) and tu in inc_tu):
                so = [plain(x) for x in h.meta.get('stub_out', [])]
                if so:
                    # include_tu mode: the stubbed-out callees keep their text but their definitions are renamed
                    txt, done = cscan.rename_definitions(open(dst).read(), so)
                    missing = [x for x in so if x not in done]
                    if missing:
                        raise Undecided('extraction break: stub_out functions not found in %s: %s' % (tu, missing))
                    open(dst, 'w').write(txt)
                    # line map: each renamed definition adds one prototype line block before it; recompute by marker
                    res['renamed_definitions'] = done
                continue
            gb = dst[:-2] + '.gb'
            cmd = ['goto-cc'] + inc + ['-I' + os.path.dirname(os.path.join(REPO, tu)), '--export-file-local-symbols', '-c', dst, '-o', gb]
            rc, out, err, dt = run(cmd, cwd=scratch, timeout=300)
            if rc != 0:
                raise Undecided('goto-cc failed on %s:\n%s' % (tu, (out + err)[-3000:]))
            so = [plain(x) for x in h.meta.get('stub_out', []) if ':' not in x or x.split(':')[0] == os.path.basename(tu)]
            if so:
                # the real bodies of these callees are dropped; the harness supplies a stub (listed as an assumption)
                gb2 = dst[:-2] + '.nobody.gb'
                cmd = ['goto-instrument'] + sum([['--remove-function-body', mangled(x) if ':' in x else x] for x in h.meta.get('stub_out', [])], []) + [gb, gb2]
                rc, out, err, dt = run(cmd, cwd=scratch, timeout=300)
                if rc != 0:
                    raise Undecided('remove-function-body failed:\n%s' % (out + err)[-2000:])
                gb = gb2
            gbs.append(gb)
        unfired = [i for i in h.injections if i.get('file') not in h.tus]
        if unfired:
            raise Undecided('injection for a file not in tus: %s' % unfired)
        for i, extra in enumerate([h.path] + [os.path.join(VERIF, e) for e in h.extra_src]):
            gb = os.path.join(scratch, 'hx%d.gb' % i)
            rc, out, err, dt = run(['goto-cc'] + (['-I' + scratch] if h.meta.get('include_tu') else []) + inc + (['-DV_INCLUDE_TU', '--export-file-local-symbols'] + ['-I' + os.path.dirname(os.path.join(REPO, t)) for t in h.tus] if h.meta.get('include_tu') else []) + ['-c', extra, '-o', gb], cwd=scratch, timeout=300)
            if rc != 0:
                raise Undecided('goto-cc failed on %s:\n%s' % (extra, (out + err)[-3000:]))
            gbs.append(gb)
        # a stub in the harness must not silently lose against a real body of the same name in a TU
        defined = []
        for gb in gbs:
            rc, out, err, dt = run(['goto-instrument', '--list-goto-functions', gb], cwd=scratch, timeout=120)
            names = set()
            for ln in out.split('\n'):
                mo = re.match(r'^(\S+) /\* (\S+) \*/\s*$', ln)   # functions with a body ("body not available" lines do not match)
                if mo:
                    names.add(mo.group(1))
            defined.append(names)
        inc_tu = h.meta.get('include_tu')
        n_tu = 0 if inc_tu is True else (len(h.tus) - len(inc_tu) if isinstance(inc_tu, list) else len(h.tus))
        tu_defs = set().union(*defined[:n_tu]) if n_tu else set()
        h_defs = set().union(*defined[n_tu:]) if defined[n_tu:] else set()
        clash = sorted(x for x in (tu_defs & h_defs) if not x.startswith('__') and x not in ('v_streq',))
        if clash:
            raise Undecided('harness defines function(s) that also have a real body in a TU: %s (add them to stub_out)' % clash)
        a = os.path.join(scratch, 'a.gb')
        rc, out, err, dt = run(['goto-cc', '--function', h.entry] + gbs + ['-o', a], cwd=scratch, timeout=300)
        if rc != 0:
            raise Undecided('goto-cc link failed:\n%s' % (out + err)[-3000:])
        # normalisation pass (function-pointer removal etc.); without it goto-instrument --dfcc 6.11 can hit an
        # internal invariant (goto_inline parameter_assignments) on some linked binaries
        an = os.path.join(scratch, 'an.gb')
        rc, out, err, dt = run(['goto-instrument', '--remove-function-body', '__v_no_such_function', a, an], cwd=scratch, timeout=300)
        if rc == 0 and os.path.exists(an):
            a = an
        b = a
        if h.dfcc:
            b = os.path.join(scratch, 'b.gb')
            cmd = ['goto-instrument', '--dfcc', h.entry]
            if h.enforce:
                cmd += ['--enforce-contract', mangled(h.enforce)]
            for r_ in h.replace:
                cmd += ['--replace-call-with-contract', mangled(r_)]
            if any(i['kind'] == 'loop' for i in h.injections) or h.meta.get('loop_contracts'):
                cmd += ['--apply-loop-contracts']
            cmd += [a, b]
            res['cmds'].append(' '.join(cmd))
            rc, out, err, dt = run(cmd, cwd=scratch, timeout=600, mem_gb=h.mem_gb)
            if rc != 0:
                raise Undecided('goto-instrument failed:\n%s' % (out + err)[-3000:])
            if h.enforce and ("Wrapping '%s'" % mangled(h.enforce)) not in out + err:
                raise Undecided('dfcc did not wrap %s' % h.enforce)
            res['dfcc_log'] = (out + err)[-4000:]
        cmd = ['cbmc', b] + h.flags + (['--unwind', str(h.unwind)] if h.unwind else []) + ([] if h.meta.get('unwinding_assertions') is False else ['--unwinding-assertions']) + ['--trace', '--json-ui']
        res['cmds'].append(' '.join(cmd))
        outp = os.path.join(scratch, 'cbmc.json')
        with open(outp, 'w') as fo:
            rc, _, err, dt = run(cmd, cwd=scratch, timeout=h.timeout, mem_gb=h.mem_gb, stdout=fo)
        res['solver_s'] = round(dt, 2)
        if err == 'TIMEOUT':
            raise Undecided('cbmc timeout after %ds' % h.timeout)
        try:
            doc = json.load(open(outp))
        except Exception as e:
            raise Undecided('cbmc output unreadable (rc=%s, %s): %s' % (rc, e, open(outp).read()[-1500:] + err[-1500:]))
        results = None
        msgs = []
        for x in doc:
            if 'result' in x:
                results = x['result']
            if 'messageText' in x:
                msgs.append(x['messageText'])
        if any('ignoring' in mt and ('forall' in mt or 'exists' in mt) for mt in msgs):
            raise Undecided('cbmc dropped a quantifier: ' + '; '.join(mt for mt in msgs if 'ignoring' in mt))
        if results is None:
            raise Undecided('cbmc produced no result (rc=%s): %s' % (rc, '\n'.join(msgs[-15:])))
        if any(r_['status'] == 'ERROR' for r_ in results):
            raise Undecided('cbmc reported ERROR status (solver failure / out of memory?): %s' % ' | '.join(msgs[-6:]))
        # reachability accounting (opt-in, meta "reachability": true): a safety check that symbolic execution never reaches
        # from this harness (e.g. the other 200 cases of eval_instruction's switch) is reported SUCCESS by CBMC; it is not an
        # obligation this harness discharged.  A second run with --cover assertion says which checks are reachable.
        reach = None
        if h.meta.get('reachability'):
            ccmd = ['cbmc', b] + h.flags + (['--unwind', str(h.unwind)] if h.unwind else []) + ['--cover', 'assertion', '--json-ui']
            res['cmds'].append(' '.join(ccmd))
            coutp = os.path.join(scratch, 'cover.json')
            with open(coutp, 'w') as fo:
                rc2, _, err2, dt2 = run(ccmd, cwd=scratch, timeout=h.timeout, mem_gb=h.mem_gb, stdout=fo)
            res['solver_s'] = round(res['solver_s'] + dt2, 2)
            try:
                cdoc = json.load(open(coutp))
                goals = [g for x in cdoc if 'goals' in x for g in x['goals']]
            except Exception as e:
                raise Undecided('reachability run unreadable (rc=%s, %s)' % (rc2, e))
            if not goals:
                raise Undecided('reachability run produced no goals')
            reach = set()
            for g in goals:
                if g.get('status') == 'satisfied':
                    sl = g.get('sourceLocation', {})
                    reach.add((sl.get('file', ''), sl.get('function', ''), str(sl.get('line', '')), g.get('description', '')))
            res['reachable_checks'] = len(reach)
        real_fns = set(plain(f) for f in (h.functions if h.functions is not None else
                                          ([h.enforce] if h.enforce else []) + [i['function'] for i in h.injections if 'function' in i]))
        srcs = {}
        for r_ in results:
            sl = r_.get('sourceLocation', {})
            f = sl.get('file', '')
            base = os.path.basename(f)
            fn = sl.get('function', '')
            cls = (sl.get('propertyClass') or (r_['property'].split('.')[-2] if '.' in r_['property'] else '')).replace(' ', '_').replace('-', '_')
            line = int(sl.get('line', 0) or 0)
            oline, ofile, text = line, f, ''
            in_real = base in linemaps and not f.startswith('<')
            in_spec = False
            if in_real:
                tu, lm = linemaps[base]
                ofile = tu
                if 0 < line <= len(lm):
                    oline = lm[line - 1]
                if tu not in srcs:
                    srcs[tu] = src_lines(os.path.join(REPO, tu))
                if 0 < oline <= len(srcs[tu]):
                    text = srcs[tu][oline - 1].strip()
            elif not f.startswith('<') and os.path.abspath(os.path.join(scratch, f)).startswith(VERIF + os.sep):
                in_spec = True
                af = os.path.abspath(os.path.join(scratch, f))
                ofile = os.path.relpath(af, VERIF)
                if af not in srcs:
                    srcs[af] = src_lines(af)
                if 0 < line <= len(srcs[af]):
                    text = srcs[af][line - 1].strip()
            desc = r_.get('description', '')
            # classification
            if desc.startswith('V_COVER'):
                kind = 'cover'
            elif desc.startswith('harness-sanity'):
                kind = 'sanity'
            elif cls in ('unwinding assertion', 'unwind') or 'unwinding assertion' in desc:
                kind = 'unwind'
            elif in_real:
                # checks located in real code: obligations when in a function under contract
                # (or any real function when the harness says functions: ["*"])
                fnp = unmangle(fn)
                under = fnp in real_fns or '*' in real_fns
                kind = 'obligation' if under else 'callee-safety'
            elif in_spec:
                if cls in ('postcondition', 'precondition', 'assertion', 'loop_invariant_base', 'loop_invariant_step',
                           'loop_decreases', 'loop_step_unwinding', 'loop_assigns', 'precondition_instance'):
                    kind = 'obligation'
                elif cls == 'assigns' and 'wrapped' not in fn and False:
                    kind = 'obligation'
                else:
                    kind = 'sanity'
            else:
                kind = 'sanity'
            if reach is not None and kind == 'obligation' and r_['status'] != 'FAILURE' and \
                    (f, fn, str(sl.get('line', '')), r_.get('description', '')) not in reach:
                kind = 'unreached'
            for ig in h.ignore:
                if ig.get('class', cls) == cls and ig.get('text_contains', '') in text and ig.get('desc_contains', '') in desc and kind == 'obligation':
                    kind = 'out-of-scope'
            # a failing safety check inside CBMC's model of a libc function (strcmp, strlen, memcpy, ...) belongs to the
            # real-code call site that handed it the bad pointer: attribute it through the trace
            if kind == 'sanity' and f.startswith('<builtin-library-') and '__CPROVER_contracts' not in f and r_['status'] == 'FAILURE':
                for st in reversed(r_.get('trace') or []):
                    if st.get('stepType') == 'function-call':
                        sl2 = st.get('sourceLocation', {})
                        b2 = os.path.basename(sl2.get('file', ''))
                        if b2 in linemaps:
                            tu2, lm2 = linemaps[b2]
                            l2 = int(sl2.get('line', 0) or 0)
                            ol2 = lm2[l2 - 1] if 0 < l2 <= len(lm2) else l2
                            if tu2 not in srcs:
                                srcs[tu2] = src_lines(os.path.join(REPO, tu2))
                            fn2 = unmangle(sl2.get('function', ''))
                            if fn2 in real_fns or '*' in real_fns:
                                kind = 'obligation'
                                desc = '%s (inside %s called from here)' % (desc, fn)
                                fn, ofile, oline = sl2.get('function', ''), tu2, ol2
                                text = srcs[tu2][ol2 - 1].strip() if 0 < ol2 <= len(srcs[tu2]) else ''
                            break
            fnp = unmangle(fn)
            group = '%s.%s' % (fnp, cls)
            if cls == 'assertion':
                group += ':' + desc
            res['props'].append({'id': r_['property'], 'class': cls, 'function': fnp, 'file': ofile, 'line': oline,
                                 'text': text, 'desc': desc, 'status': r_['status'], 'kind': kind, 'group': group,
                                 'trace': r_.get('trace') if (r_['status'] == 'FAILURE' and kind != 'cover') else None})
        # vacuity guard: every V_COVER point (an assertion that must FAIL) has to be reachable;
        # a contradictory requires / assume makes it pass, which is reported as undecided
        covers = [p for p in res['props'] if p['kind'] == 'cover']
        res['cover_goals'] = len(covers)
        res['cover_satisfied'] = sum(1 for p in covers if p['status'] == 'FAILURE')
        if h.text.count('V_COVER(') and not covers:
            raise Undecided('vacuity guard: V_COVER points produced no property')
        unreached = [p for p in covers if p['status'] != 'FAILURE']
        # a changed program may make a reachability witness unreachable *because* it breaks the property (the path the witness
        # sits on is the one that no longer exists): a failing obligation with its counterexample outranks the vacuity guard
        if unreached and any(p['kind'] == 'obligation' and p['status'] == 'FAILURE' for p in res['props']):
            res['covers_unreached_with_violation'] = [p['text'][:80] for p in unreached[:5]]
        elif unreached:
            raise Undecided('vacuity guard: cover points not reachable: %s' % [p['text'][:80] for p in unreached[:5]])
        # must-fire: each injected loop contract must show base+step obligations
        nloops = sum(1 for i in res['injected'] if i['kind'] == 'loop')
        nstep = len(set((p['function'], p['line']) for p in res['props'] if p['class'] == 'loop_invariant_step'))
        res['loop_contracts_applied'] = nstep
        if nloops and nstep < nloops and not h.meta.get('allow_unreached_loops'):
            raise Undecided('only %d of %d injected loop contracts produced loop_invariant_step obligations' % (nstep, nloops))
        groups = set(p['group'] for p in res['props'] if p['kind'] == 'obligation')
        missing = [g for g in h.expect_groups if not any(x == g or x.startswith(g) for x in groups)]
        if missing:
            raise Undecided('vacuity guard: expected obligation groups missing: %s' % missing)
        if not any(p['kind'] == 'obligation' for p in res['props']):
            raise Undecided('vacuity guard: harness generated zero obligations')
        has_violation = any(p['kind'] == 'obligation' and p['status'] == 'FAILURE' for p in res['props'])
        # UNKNOWN = CBMC did not decide a check because an earlier one on the same path already failed
        bad_sanity = [p for p in res['props'] if p['kind'] in ('sanity', 'unwind') and p['status'] != 'SUCCESS'
                      and not (has_violation and p['status'] == 'UNKNOWN')
                      # a counterexample to an obligation is a real execution of the program text whether or not some
                      # loop could have run longer than the unwinding bound: only a *pass* depends on the unwinding assertions
                      and not (has_violation and p['kind'] == 'unwind')
                      # CBMC keeps executing after a failed check: once the code under test has, e.g., overflowed a buffer, helper
                      # code of the harness that walks that buffer fails its own pointer checks as a consequence.  Explicit
                      # harness-sanity assertions (unexpected calls, model limits) still block.
                      and not (has_violation and p['kind'] == 'sanity' and not p['desc'].startswith('harness-sanity'))]
        if has_violation and any(p['kind'] == 'unwind' and p['status'] == 'FAILURE' for p in res['props']):
            res['unwind_incomplete'] = True
        if bad_sanity:
            res['status'] = 'undecided'
            res['detail'] = 'harness sanity / unwinding checks failed: ' + '; '.join(
                '%s [%s] %s:%d' % (p['id'], p['desc'], p['file'], p['line']) for p in bad_sanity[:6])
    except Undecided as e:
        res['status'] = 'undecided'
        res['detail'] = str(e)
    finally:
        res['wall_s'] = round(time.time() - t0, 2)
        if not keep:
            # keep the trace-bearing results in memory only
            shutil.rmtree(scratch, ignore_errors=True)
    return res
