/* vharness.h — shared by every proof harness in /verif/spec.
 *
 * A harness file is compiled twice from the same text:
 *   - by goto-cc (default): contracts are CBMC code contracts, V_DECL/V_NEW draw
 *     nondeterministic values, V_ASSERT is a CBMC assertion (an obligation);
 *   - by gcc/clang with -DV_NATIVE (replay twin): the contract clauses vanish,
 *     V_DECL/V_NEW read the values CBMC's counterexample assigned (generated
 *     header replay_values.h), V_ASSERT/V_POST report a violation and the
 *     real function from /repo runs under ASan/UBSan.
 *
 * Rules for harness authors (the trace extractor depends on them):
 *   - a variable declared with V_DECL / V_NEW is never re-assigned;
 *   - every nondeterministic choice of the harness or of a stub goes through
 *     V_DECL / V_NEW / V_FILL, never through a bare nondet call.
 */
#ifndef VHARNESS_H
#define VHARNESS_H
#include <stddef.h>
#include <stdint.h>
#include <stdlib.h>
#include <string.h>

typedef unsigned char v_uchar;
typedef unsigned int v_uint;
typedef unsigned long v_ulong;
typedef long long v_llong;
typedef unsigned short v_ushort;

#ifndef V_NATIVE
/* ------------------------------------------------------------------ CBMC */
#define V_NONDET_FN(T) T nondet_##T(void)
V_NONDET_FN(int); V_NONDET_FN(long); V_NONDET_FN(char); V_NONDET_FN(short);
V_NONDET_FN(v_uchar); V_NONDET_FN(v_uint); V_NONDET_FN(v_ulong); V_NONDET_FN(v_llong);
V_NONDET_FN(v_ushort); V_NONDET_FN(size_t); V_NONDET_FN(int64_t); V_NONDET_FN(uint64_t);
V_NONDET_FN(uint32_t); V_NONDET_FN(int32_t); V_NONDET_FN(ptrdiff_t);

#define V_DECL(T, x) T x = nondet_##T()
/* heap object of type T with arbitrary contents (pointer members are garbage:
   the harness must overwrite every pointer member it relies on) */
#define V_NEW(T, p) \
  T *p = (T *)malloc(sizeof(T)); __CPROVER_assume(p != 0); \
  { T nondet_##T(void); T p##_val = nondet_##T(); *p = p##_val; }
/* same for an object the harness already owns (global or local) */
#define V_FILL(T, lv, tag) { T nondet_##T(void); T tag##_val = nondet_##T(); (lv) = tag##_val; }
#define V_ASSUME(c) __CPROVER_assume(c)
#define V_ASSERT(c, msg) __CPROVER_assert((c), msg)
#define V_POST(c, msg) /* native only: the contract's ensures clause is the obligation */
/* reachability witness: an assertion that is expected to FAIL (checked by the driver as a vacuity guard) */
#define V_COVER(c) __CPROVER_assert(!(c), "V_COVER reachable: " #c)
#ifdef V_INCLUDE_TU
#define V_STATIC(file_c, fn) fn
#else
#define V_STATIC(file_c, fn) __CPROVER_file_local_##file_c##_##fn
#endif
#define V_UNREACHABLE_STUB(msg) __CPROVER_assert(0, "harness-sanity: unexpected call: " msg)
/* path ends here (error()/fatal()/longjmp): nothing after it is explored */
#define V_STOP() __CPROVER_assume(0)

#else
/* ---------------------------------------------------------------- native */
#include <stdio.h>
#define __CPROVER_requires(...)
#define __CPROVER_ensures(...)
#define __CPROVER_assigns(...)
#define __CPROVER_frees(...)
#define V_NONDET_FN(T) struct v_unused_##T
/* CBMC primitives used inside stubs: not checkable natively (the sanitizers stand in) */
#define __CPROVER_w_ok(p, n) 1
#define __CPROVER_r_ok(p, n) 1
#define __CPROVER_rw_ok(p, n) 1
#define __CPROVER_havoc_slice(p, n) ((void)0)
#define __CPROVER_havoc_object(p) ((void)0)
#define __CPROVER_same_object(a, b) 1
long long v_next(const char *name);          /* replay_values.h */
void v_violation(const char *kind, const char *msg, const char *file, int line);
void v_assume_failed(const char *cond, const char *file, int line);
void v_stop(void);
#define V_DECL(T, x) T x = (T)v_next(#x)
#define V_NEW(T, p) T *p = (T *)calloc(1, sizeof(T)); V_FILLFN_##p(p)
#define V_FILL(T, lv, tag) V_FILLFN_##tag(&(lv))
#define V_ASSUME(c) do { if (!(c)) v_assume_failed(#c, __FILE__, __LINE__); } while (0)
#define V_ASSERT(c, msg) do { if (!(c)) v_violation("assertion", msg, __FILE__, __LINE__); } while (0)
#define V_POST(c, msg) do { if (!(c)) v_violation("postcondition", msg, __FILE__, __LINE__); } while (0)
#define V_COVER(c)
#define V_STATIC(file_c, fn) fn
#define V_UNREACHABLE_STUB(msg) v_violation("unexpected-call", msg, __FILE__, __LINE__)
#define V_STOP() v_stop()
#endif

/* assertion after which the path ends when it fails (later checks may dereference what this one establishes) */
#define V_CHECK(c, msg) do { int v_c_ = (c) ? 1 : 0; V_ASSERT(v_c_, msg); if (!v_c_) V_STOP(); } while (0)

/* string equality for stubs (literal apply names): plain loop, terminates on concrete strings */
static inline int v_streq(const char *a, const char *b) {
  if (!a || !b) return 0;
  for (int i = 0; i < 64; i++) { if (a[i] != b[i]) return 0; if (!a[i]) return 1; }
  return 0;
}

#endif
